"""C17 — value->bytes->value checks, part A: integers and ACK frames (child side)."""

from __future__ import annotations

import random

from . import c17_gens as G
from . import c17_refcodec as R
from .c17_adapters import AQ, check_bytes, mutate_cases
from .common import exc_signature, exc_witness, h


class Ctx:
    """per-batch bookkeeping: case index, replay dict, 'only' filter"""

    def __init__(self, batch, res):
        self.batch = batch
        self.res = res
        self.idx = -1
        self.only = batch.get("only")

    def next(self):
        self.idx += 1
        return self.only is None or self.only == self.idx

    def case(self):
        c = {k: v for k, v in self.batch.items() if k != "only"}
        c["only"] = self.idx
        return c


def ref_selftest():
    """the reference must reproduce the RFCs' own examples, otherwise the harness is broken"""
    odcid = bytes.fromhex("8394c8f03e515708")
    scid = bytes.fromhex("f067a5502a4262b5")
    assert R.enc_retry(R.V1, b"", scid, b"token", odcid, 0xF).hex() == (
        "ff000000010008f067a5502a4262b5746f6b656e04a265ba2eff4d829058fb3f0f2496ba")  # RFC 9001 A.4
    assert R.enc_retry(R.V2, b"", scid, b"token", odcid, 0xF).hex() == (
        "cf6b3343cf0008f067a5502a4262b5746f6b656ec8646ce8bfe33952d955543665dcc7b6")  # RFC 9369 A.4
    assert R.enc_long_header(R.V1, "initial", odcid, b"", b"", 0x49E, 2, 4, 2).hex() == (
        "c300000001088394c8f03e5157080000449e00000002")  # RFC 9001 A.2
    assert R.enc_long_header(R.V2, "initial", odcid, b"", b"", 0x49E, 2, 4, 2).hex() == (
        "d36b3343cf088394c8f03e5157080000449e00000002")  # RFC 9369 A.2
    for hx, v in (("c2197c5eff14e88c", 151288809941952652), ("9d7f3e7d", 494878333), ("7bbd", 15293), ("25", 37), ("4025", 37)):
        assert R.dec_varint(bytes.fromhex(hx))[0] == v  # RFC 9000 A.1
        if hx != "4025":
            assert R.ref_varint(v).hex() == hx


# ------------------------------------------------------------------ integers


def _varint_value(cx, v, in_domain):
    res = cx.res
    aq = AQ.get()
    res.count("varint_values")
    buf = aq.Buffer(capacity=8)
    try:
        buf.push_uint_var(v)
    except ValueError as exc:
        if in_domain:
            res.violation("codec:push_uint_var:rejects-valid-value", "push_uint_var(%d) raised %r" % (v, exc), cx.case())
        else:
            res.count("varint_out_of_domain_raised")
        return "raise"
    except Exception as exc:
        if in_domain:
            res.violation(exc_signature(exc, "codec:push_uint_var:"), "push_uint_var(%d) raised %r" % (v, exc), cx.case(), exc_witness(exc))
        else:
            res.count("varint_out_of_domain_raised")
        return "raise"
    data = buf.data
    back = aq.Buffer(data=data).pull_uint_var()
    if back != v:
        if not in_domain:
            # v is not a variable-length integer: outside the property's domain, observation only
            res.count("obs_push_returns_for_out_of_domain_value_var")
            return "out-of-domain-truncated"
        res.violation("codec:varint:roundtrip-mismatch",
                      "push_uint_var(%d) returned normally and stored %s, which reads back as %d" % (v, data.hex(), back), cx.case(),
                      {"value": str(v), "stored": data.hex(), "read_back": str(back)})
        return "mismatch"
    res.count("varint_roundtrips")
    if in_domain:
        ref = R.ref_varint(v)
        res.count("varint_byte_equal_checks")
        if data != ref:
            res.violation("codec:varint:bytes-differ-from-reference", "push_uint_var(%d) = %s, reference %s" % (v, data.hex(), ref.hex()), cx.case())
        try:
            sz = aq.buffer.size_uint_var(v)
            ev = aq.buffer.encode_uint_var(v)
        except Exception as exc:
            res.violation(exc_signature(exc, "codec:size_uint_var:"), "raised %r for %d" % (exc, v), cx.case(), exc_witness(exc))
        else:
            if sz != len(ref):
                res.violation("codec:size_uint_var:differs-from-reference", "size_uint_var(%d) = %d, reference %d" % (v, sz, len(ref)), cx.case())
            if ev != ref:
                res.violation("codec:encode_uint_var:bytes-differ-from-reference", "encode_uint_var(%d) = %s" % (v, ev.hex()), cx.case())
        # every legal (also non-minimal) encoding must decode to v; every strict prefix must be a read error
        for size in (1, 2, 4, 8):
            if size < len(ref):
                continue
            enc = R.ref_varint(v, size)
            res.count("varint_cross_decodes")
            b = aq.Buffer(data=enc + b"\xa5")
            try:
                got = b.pull_uint_var()
            except Exception as exc:
                res.violation("codec:pull_uint_var:rejects-valid-encoding", "pull of %s raised %r" % (enc.hex(), exc), cx.case())
                continue
            if got != v or b.tell() != size:
                res.violation("codec:pull_uint_var:differs-from-reference", "pull of %s = %d (consumed %d), expected %d" % (enc.hex(), got, b.tell(), v), cx.case())
            for cut in range(size):
                try:
                    aq.Buffer(data=enc[:cut]).pull_uint_var()
                except aq.buffer.BufferReadError:
                    res.count("varint_truncations_rejected")
                except Exception as exc:
                    res.violation(exc_signature(exc, "codec:pull_uint_var:truncated:"), "raised %r" % exc, cx.case())
                else:
                    res.violation("codec:pull_uint_var:accepts-truncated", "pull of %s (cut of %s) returned" % (enc[:cut].hex(), enc.hex()), cx.case())
    return "ok"


def _fixed_value(cx, bits, v):
    res = cx.res
    aq = AQ.get()
    n = bits // 8
    name = "uint%d" % bits
    in_domain = 0 <= v < (1 << bits)
    res.count(name + "_values")
    buf = aq.Buffer(capacity=n)
    try:
        getattr(buf, "push_" + name)(v)
    except Exception as exc:
        if in_domain:
            res.violation(exc_signature(exc, "codec:push_%s:" % name), "push_%s(%d) raised %r" % (name, v, exc), cx.case(), exc_witness(exc))
        else:
            res.count(name + "_out_of_domain_raised")
        return "raise"
    data = buf.data
    back = getattr(aq.Buffer(data=data), "pull_" + name)()
    if back != v:
        if not in_domain:
            # v is not an N-bit integer: outside the property's domain, observation only
            res.count("obs_push_returns_for_out_of_domain_value_%d" % bits)
            return "out-of-domain-truncated"
        res.violation("codec:%s:roundtrip-mismatch" % name,
                      "push_%s(%d) returned normally and stored %s, which reads back as %d" % (name, v, data.hex(), back), cx.case(),
                      {"value": str(v), "stored": data.hex(), "read_back": str(back)})
        return "mismatch"
    res.count(name + "_roundtrips")
    if in_domain:
        res.count(name + "_byte_equal_checks")
        ref = R.ref_uint(v, n)
        if data != ref:
            res.violation("codec:%s:bytes-differ-from-reference" % name, "push_%s(%d) = %s, reference %s" % (name, v, data.hex(), ref.hex()), cx.case())
        for cut in range(n):
            try:
                getattr(aq.Buffer(data=ref[:cut]), "pull_" + name)()
            except aq.buffer.BufferReadError:
                res.count(name + "_truncations_rejected")
            except Exception as exc:
                res.violation(exc_signature(exc, "codec:pull_%s:truncated:" % name), "raised %r" % exc, cx.case())
            else:
                res.violation("codec:pull_%s:accepts-truncated" % name, "pull of %d of %d bytes returned" % (cut, n), cx.case())
        # write into a buffer that is one byte too small must raise, not write
        small = aq.Buffer(capacity=n - 1)
        try:
            getattr(small, "push_" + name)(v)
        except aq.buffer.BufferWriteError:
            res.count(name + "_overflow_rejected")
        except Exception as exc:
            res.violation(exc_signature(exc, "codec:push_%s:overflow:" % name), "raised %r" % exc, cx.case())
        else:
            res.violation("codec:push_%s:writes-past-capacity" % name, "push into capacity %d returned" % (n - 1), cx.case())
    return "ok"


def gen_ints(batch, res):
    cx = Ctx(batch, res)
    rng = random.Random(batch["seed"])
    if batch.get("boundary"):
        ref_selftest()
        res.count("ref_selftests")
        for v in G.VARINT_BOUNDARY + G.VARINT_OUTSIDE:
            if cx.next():
                res.evaluations += 1
                out = _varint_value(cx, v, 0 <= v <= R.VARINT_MAX)
                res.nontrivial.add("varint:boundary:%d:%s" % (v if abs(v) < 1 << 70 else -7, out))
        for bits in (8, 16, 32, 64):
            for v in G.fixed_boundary(bits):
                if cx.next():
                    res.evaluations += 1
                    out = _fixed_value(cx, bits, v)
                    res.nontrivial.add("uint%d:boundary:%d:%s" % (bits, G.fixed_boundary(bits).index(v), out))
        res.count("int_boundary_sets_done")
        # all 1- and 2-byte inputs to the varint decoder, against the reference
        aq = AQ.get()
        if cx.only is None:
            for n in (1, 2):
                for x in range(1 << (8 * n)):
                    data = x.to_bytes(n, "big")
                    try:
                        want = R.dec_varint(data)
                    except R.Reject:
                        want = None
                    b = aq.Buffer(data=data)
                    try:
                        got = (b.pull_uint_var(), b.tell())
                    except aq.buffer.BufferReadError:
                        got = None
                    if got != want:
                        res.violation("codec:pull_uint_var:differs-from-reference", "input %s: aioquic %r reference %r" % (data.hex(), got, want),
                                      {"gen": "replay_bytes", "codec": "varint", "hex": data.hex(), "arg": None})
                    res.count("varint_exhaustive_short_inputs")
            res.evaluations += 1
    for _ in range(batch.get("n", 0)):
        c = rng.random()
        if c < 0.5:
            v = rng.getrandbits(62)
            if cx.next():
                res.evaluations += 1
                _varint_value(cx, v, True)
        elif c < 0.6:
            v = rng.choice((1, -1)) * rng.getrandbits(rng.choice((63, 64, 65, 80)))
            if cx.next():
                res.evaluations += 1
                _varint_value(cx, v, 0 <= v <= R.VARINT_MAX)
        else:
            bits = rng.choice((8, 16, 32, 64))
            v = rng.getrandbits(bits) if rng.random() < 0.7 else rng.choice((1, -1)) * rng.getrandbits(bits + rng.choice((1, 8, 40)))
            if cx.next():
                res.evaluations += 1
                _fixed_value(cx, bits, v)
    if batch.get("n"):
        res.nontrivial.add("ints:random:" + h(batch["seed"], res.counters.get("varint_roundtrips", 0) > 0))
    # arbitrary bytes into the varint decoder
    for _ in range(batch.get("nbytes", 0) if cx.only is None else 0):
        data = G.rbytes(rng, rng.randrange(0, 10))
        res.evaluations += 1
        res.nontrivial.add("varint:bytes:" + check_bytes("varint", data, None, res, "random"))


# ------------------------------------------------------------------ ACK frames


def ack_value(cx, ranges, delay, rng, sig):
    """ranges ascending inclusive"""
    res = cx.res
    aq = AQ.get()
    res.count("ack_values")
    rs = aq.rangeset.RangeSet([range(lo, hi + 1) for lo, hi in ranges])
    buf = aq.Buffer(capacity=16 * len(ranges) + 64)
    try:
        n = aq.packet.push_ack_frame(buf, rs, delay)
    except Exception as exc:
        res.violation(exc_signature(exc, "codec:ack:encode:"), "push_ack_frame raised %r" % exc, cx.case(), exc_witness(exc))
        return
    data = buf.data
    ref = R.enc_ack(ranges, delay)
    res.count("ack_byte_equal_checks")
    if data != ref:
        res.violation("codec:ack:bytes-differ-from-reference", "push_ack_frame bytes differ from the reference encoder", cx.case(),
                      {"ranges": repr(ranges[:8]), "delay": delay, "aioquic": data[:120].hex(), "reference": ref[:120].hex()})
    if n != len(ranges):
        res.violation("codec:ack:range-count-return", "push_ack_frame returned %r for %d ranges" % (n, len(ranges)), cx.case())
    want = {"ranges": [list(x) for x in ranges], "delay": delay}
    # O1 + cross-decode of the reference's non-minimal encoding
    sizes = rng.choice((None, 8, 4))
    loose = _ack_loose(ranges, delay, sizes) if sizes else None
    for label, enc in (("own", data), ("reference-nonminimal", loose)):
        if enc is None:
            continue
        b = aq.Buffer(data=enc + b"\x5a")
        try:
            rs2, d2 = aq.packet.pull_ack_frame(b)
        except Exception as exc:
            res.violation("codec:ack:decode-rejects-valid-encoding", "pull_ack_frame(%s encoding) raised %r" % (label, exc), cx.case(), exc_witness(exc))
            continue
        got = {"ranges": [[r.start, r.stop - 1] for r in rs2], "delay": d2}
        res.count("ack_roundtrips" if label == "own" else "ack_cross_decodes")
        if got != want or b.tell() != len(enc):
            res.violation("codec:ack:roundtrip-mismatch" if label == "own" else "codec:ack:decode-differs-from-reference",
                          "pull_ack_frame(%s encoding) gave %r (consumed %d/%d), expected %r" % (label, repr(got)[:300], b.tell(), len(enc), repr(want)[:300]), cx.case())
    rr, rd, used = R.dec_ack(data) if data == ref else (ranges, delay, len(data))
    res.count("ack_cross_decodes")
    if data == ref and ([list(x) for x in rr] != want["ranges"] or rd != delay or used != len(data)):
        raise AssertionError("reference ACK codec does not round-trip")
    res.nontrivial.add(sig)


def _ack_loose(ranges, delay, size):
    """reference encoding with every varint forced to `size` bytes where it fits"""

    def e(v):
        return R.ref_varint(v, max(size, R.ref_varint_size(v)))

    rs = sorted(ranges, reverse=True)
    out = e(rs[0][1]) + e(delay) + e(len(rs) - 1) + e(rs[0][1] - rs[0][0])
    prev = rs[0][0]
    for lo, hi in rs[1:]:
        out += e(prev - hi - 2) + e(hi - lo)
        prev = lo
    return out


def gen_ack_universe(batch, res):
    """ALL non-empty subsets of {base..base+11}"""
    cx = Ctx(batch, res)
    rng = random.Random(batch["seed"])
    base = batch["base"]
    for mask in range(batch.get("lo", 1), batch.get("hi", 4096)):
        delay = G.ACK_DELAYS[mask % len(G.ACK_DELAYS)]
        if cx.next():
            res.evaluations += 1
            ack_value(cx, G.subset_ranges(mask, base), delay, rng, "ack:u12:%d:%03x" % (base, mask))
            res.count("ack_universe_subsets")


def gen_ack_random(batch, res):
    cx = Ctx(batch, res)
    rng = random.Random(batch["seed"])
    for i in range(batch["n"]):
        ranges = G.random_ranges(rng)
        delay = rng.choice(G.ACK_DELAYS) if rng.random() < 0.6 else rng.getrandbits(62)
        if cx.next():
            res.evaluations += 1
            span = ranges[-1][1].bit_length()
            ack_value(cx, ranges, delay, rng, "ack:rand:n%d:top%d:d%d" % (min(len(ranges), 9), span // 8, delay.bit_length() // 16))
        if cx.only is None and i % 4 == 0 and len(ranges) <= 20:
            data = R.enc_ack(ranges, delay)
            for kind, mut in mutate_cases(data, [], rng, nflips=12):
                res.evaluations += 1
                res.nontrivial.add("ack:bytes:%s:%s" % (kind, check_bytes("ack", mut, None, res, kind)))
    for _ in range(batch.get("nbytes", 0) if cx.only is None else 0):
        data = G.rbytes(rng, rng.randrange(0, 40))
        res.evaluations += 1
        res.nontrivial.add("ack:bytes:random:" + check_bytes("ack", data, None, res, "random"))
