"""C03 / (e): the name a client asks for through the asyncio front end is the name its certificate check uses.

`aioquic.asyncio.connect(host, port, configuration=cfg)` is how applications name the server they want.  The real
`connect()` and `serve()` run on the virtual-time event loop of C19 (`vf.c19_vloop`) over an in-memory network in which
several host names resolve to the same server, whose certificate only covers "localhost":

* connect("localhost")            -> must complete (control)
* connect("other.test")           -> must not complete (the certificate does not cover that name)

in every order, with a fresh QuicConfiguration per connection and with ONE configuration object reused for all of
them (as an application that talks to several servers does).  Oracle: HandshakeCompleted / a returned protocol for a
requested name the certificate does not cover is a violation; a refused control is one, too.
"""

from __future__ import annotations

import asyncio
import os

from .common import Result, SeededUrandom

CERTS = os.path.join(os.path.dirname(os.path.abspath(__file__)), "certs")
PORT = 4433
ORDERS = [["localhost", "other.test"], ["other.test", "localhost"], ["localhost", "other.test", "localhost", "third.test"],
          ["localhost", "localhost", "other.test"]]


def _one(order, reuse, seed, res, case):
    from aioquic.asyncio import connect, serve
    from aioquic.quic.configuration import QuicConfiguration

    from .c19_vloop import VLoop, VNet

    urandom = SeededUrandom(seed)
    urandom.install()
    loop = VLoop(seed=seed, max_lateness=0.0, wall_limit=60.0)
    net = VNet(loop, seed, {"base": 0.01, "loss": 0.0, "dup": 0.0, "reorder": 0.0, "jitter": 0.0, "adv_until": 0.0, "blackouts": {}})
    asyncio.set_event_loop(loop)
    outcomes = []

    def client_cfg():
        c = QuicConfiguration(is_client=True, alpn_protocols=["vf"])
        c.load_verify_locations(cafile=os.path.join(CERTS, "pycacert.pem"))
        return c

    async def main():
        scfg = QuicConfiguration(is_client=False, alpn_protocols=["vf"])
        scfg.load_cert_chain(os.path.join(CERTS, "ssl_cert.pem"), os.path.join(CERTS, "ssl_key.pem"))
        server = await serve("localhost", PORT, configuration=scfg)
        ip = net.resolve("localhost")
        for name in set(order):
            net.hosts[name] = ip  # every name resolves to the one server
        shared = client_cfg()
        for name in order:
            cfg = shared if reuse else client_cfg()
            done = False
            try:
                async with connect(name, PORT, configuration=cfg) as proto:
                    done = True
                    await asyncio.sleep(0.05)
            except (ConnectionError, asyncio.TimeoutError):
                pass
            outcomes.append((name, done))
            await asyncio.sleep(0.2)
        server.close()

    try:
        loop.run_until_complete(asyncio.wait_for(main(), 120.0))
    finally:
        try:
            for t in asyncio.all_tasks(loop):
                t.cancel()
            loop.run_until_complete(asyncio.sleep(0))
        except Exception:
            pass
        asyncio.set_event_loop(None)
        loop.close()
        urandom.uninstall()
    for i, (name, done) in enumerate(outcomes):
        res.evaluations += 1
        res.count("e_connects")
        covered = name == "localhost"
        tag = "configuration-reused" if reuse else "fresh-configuration"
        if done and not covered:
            res.violation("e:connect-completed-for-a-name-the-certificate-does-not-cover:" + tag,
                          "connect(%r) completed although the server's certificate only covers 'localhost' (connections so far: %r)" % (name, outcomes[: i + 1]),
                          case, {"order": order, "reuse": reuse})
        elif not done and covered:
            res.violation("e:connect-refused-for-the-name-the-certificate-covers:" + tag,
                          "connect(%r) did not complete (connections so far: %r)" % (name, outcomes[: i + 1]), case, {"order": order, "reuse": reuse})
        else:
            res.count("e_outcome_%s_%s" % ("covered" if covered else "not-covered", "completed" if done else "refused"))
            res.nontrivial.add("e:%s:%d:%s:%s" % (tag, i, name, done))


def e_names(batch, res):
    for oi, order in enumerate(ORDERS):
        for reuse in (False, True):
            case = {"gen": "e_names", "only": [oi, reuse], "seed": batch.get("seed", 0)}
            if batch.get("only") and batch["only"] != [oi, reuse]:
                continue
            try:
                _one(order, reuse, batch.get("seed", 0) * 131 + oi, res, case)
            except Exception as exc:  # the harness (virtual loop, in-memory network), not the property
                res.inconclusive.append("e_names %r reuse=%s: harness failed: %r" % (order, reuse, exc))
