"""C05 generators: descriptors (small JSON-able dicts) and their materialisation into datagrams.

enumerate_*(state, rng, n) -> list of descriptors          (needs the prepared state for CIDs etc.)
materialize(st, desc)      -> list of (datagram bytes, source address or None)

A descriptor has "fam" (raw / mut / frames / tls / hist), "kind" (the frame / message / grammar
class used for the evidence histogram) and whatever the materialiser needs.  Descriptors never
contain key material; protected packets are built at materialisation time with the state's keys.
"""

from __future__ import annotations

import random

from . import c05_tls as T
from . import frames as F
from . import refcrypto as rc
from .c05_lib import TYPE_CODE, V1, V2
from .simnet import CLIENT_ADDR2

B = [0, 1, 63, 64, 16383, 16384, (1 << 30) - 1, 1 << 30, (1 << 62) - 1]
VMAX = (1 << 62) - 1


def ev(v, size=None):
    return F.enc_varint(v, size)


def pick(descs, n, rng):
    """at most n descriptors, every kind represented before any kind gets a second one"""
    if n is None or len(descs) <= n:
        return descs
    by = {}
    for d in descs:
        by.setdefault(d["kind"], []).append(d)
    for v in by.values():
        rng.shuffle(v)
    kinds = sorted(by)
    rng.shuffle(kinds)
    out = []
    rnd = 0
    while len(out) < n:
        progressed = False
        for k in kinds:
            if rnd < len(by[k]):
                out.append(by[k][rnd])
                progressed = True
                if len(out) >= n:
                    break
        if not progressed:
            break
        rnd += 1
    return out


# ----------------------------------------------------------------------------- frame specs
# A frame spec is a list: [name, args...] -> bytes.  Everything numeric so that it is JSON-able.


def build_frame(spec):
    n = spec[0]
    a = spec[1:]
    if n == "raw":
        return bytes.fromhex(a[0])
    if n == "padding":
        return bytes(a[0])
    if n == "ping":
        return b"\x01"
    if n == "ack":  # type(2|3), largest, delay, count_field, first, [[gap,len]..], ecn or None
        t, largest, delay, count, first, ranges, ecn = a
        out = ev(t) + ev(largest) + ev(delay) + ev(count) + ev(first)
        for g, l in ranges:
            out += ev(g) + ev(l)
        if ecn is not None:
            out += b"".join(ev(x) for x in ecn)
        return out
    if n == "reset_stream":
        return b"\x04" + ev(a[0]) + ev(a[1]) + ev(a[2])
    if n == "stop_sending":
        return b"\x05" + ev(a[0]) + ev(a[1])
    if n == "crypto":  # offset, declared len, actual data len
        return b"\x06" + ev(a[0]) + ev(a[1]) + bytes(a[2])
    if n == "new_token":  # declared len, actual
        return b"\x07" + ev(a[0]) + b"t" * a[1]
    if n == "stream":  # type bits(0..7), sid, off, declared len, actual len
        t = 0x08 | a[0]
        out = bytes([t]) + ev(a[1])
        if t & 4:
            out += ev(a[2])
        if t & 2:
            out += ev(a[3])
        return out + b"d" * a[4]
    if n == "max_data":
        return b"\x10" + ev(a[0])
    if n == "max_stream_data":
        return b"\x11" + ev(a[0]) + ev(a[1])
    if n == "max_streams":  # uni, v
        return (b"\x13" if a[0] else b"\x12") + ev(a[1])
    if n == "data_blocked":
        return b"\x14" + ev(a[0])
    if n == "stream_data_blocked":
        return b"\x15" + ev(a[0]) + ev(a[1])
    if n == "streams_blocked":
        return (b"\x17" if a[0] else b"\x16") + ev(a[1])
    if n == "new_cid":  # seq, rpt, declared cid len, actual cid len, token len, cid fill byte
        fill = a[5] if len(a) > 5 else 0xC1
        return b"\x18" + ev(a[0]) + ev(a[1]) + bytes([a[2] & 0xFF]) + bytes([fill]) * a[3] + bytes([0x5A]) * a[4]
    if n == "retire_cid":
        return b"\x19" + ev(a[0])
    if n == "path_challenge":
        return b"\x1a" + bytes([a[0]]) * a[1]
    if n == "path_response":
        return b"\x1b" + bytes([a[0]]) * a[1]
    if n == "close":  # app, code, frame_type, declared reason len, reason hex
        r = bytes.fromhex(a[4])
        if a[0]:
            return b"\x1d" + ev(a[1]) + ev(a[3]) + r
        return b"\x1c" + ev(a[1]) + ev(a[2]) + ev(a[3]) + r
    if n == "handshake_done":
        return b"\x1e"
    if n == "datagram":  # with_len, declared, actual
        if a[0]:
            return b"\x31" + ev(a[1]) + b"g" * a[2]
        return b"\x30" + b"g" * a[2]
    if n == "type":  # frame type value, varint size, trailing hex
        return ev(a[0], a[1]) + bytes.fromhex(a[2])
    raise ValueError(n)


def stream_ids(role):
    """stream ids of every class seen from a victim of `role`: existing, peer-initiated new,
    locally-unopened, beyond the stream-count limit, huge."""
    ids = list(range(0, 16))
    ids += [4 * 127 + c for c in range(4)] + [4 * 128 + c for c in range(4)] + [4 * 1000 + c for c in range(4)]
    ids += [VMAX - c for c in range(4)] + [(1 << 30) + c for c in range(4)]
    return ids


def frame_catalogue(role, rng):
    """[(kind label, [frame spec, ...])] — one packet payload each."""
    out = []
    sids = stream_ids(role)

    def add(kind, *specs):
        out.append((kind, list(specs)))

    add("PADDING", ["padding", 1])
    add("PADDING", ["padding", 1100])
    add("PING", ["ping"])
    # ACK
    for t in (2, 3):
        ecn = [1, 2, 3] if t == 3 else None
        k = "ACK" if t == 2 else "ACK_ECN"
        for largest in B:
            add(k, ["ack", t, largest, 0, 0, 0, [], ecn])
            add(k, ["ack", t, largest, 0, 0, largest, [], ecn])  # first range = whole
            add(k, ["ack", t, largest, 0, 0, min(largest + 1, VMAX), [], ecn])  # first > largest (underflow)
        for delay in B:
            add(k, ["ack", t, 5, delay, 0, 0, [], ecn])
        add(k, ["ack", t, 100, 0, 1, 0, [[200, 0]], ecn])  # gap underflow
        add(k, ["ack", t, 100, 0, 1, 10, [[0, 200]], ecn])  # range len underflow
        add(k, ["ack", t, 100, 0, 2, 10, [[0, 1]], ecn])  # count > ranges present
        add(k, ["ack", t, 100, 0, VMAX, 0, [], ecn])  # huge count, nothing follows
        add(k, ["ack", t, 1000, 0, 300, 0, [[0, 0]] * 300, ecn])  # many ranges
        add(k, ["ack", t, VMAX, 0, 1, VMAX // 2, [[0, VMAX // 4]], ecn])
        add(k, ["ack", t, 50, 0, 0, 50, [], ecn])  # everything the victim may have sent
        add(k, ["ack", t, 50, 1 << 40, 0, 50, [], ecn])
        add(k, ["ack", t, 3, 0, 1, 0, [[0, 0]], ecn])
        if t == 3:
            add(k, ["ack", t, 5, 0, 0, 0, [], [VMAX, VMAX, VMAX]])
            add(k, ["ack", t, 5, 0, 0, 0, [], [1]])  # truncated ECN counts
    # RESET_STREAM / STOP_SENDING / MAX_STREAM_DATA / STREAM_DATA_BLOCKED over stream-id classes
    for sid in sids:
        add("RESET_STREAM", ["reset_stream", sid, 7, 0])
        add("STOP_SENDING", ["stop_sending", sid, 7])
        add("MAX_STREAM_DATA", ["max_stream_data", sid, 100000])
        add("STREAM_DATA_BLOCKED", ["stream_data_blocked", sid, 10])
        add("STREAM", ["stream", 2, sid, 0, 3, 3])
        add("STREAM", ["stream", 7, sid, 5, 3, 3])
    for v in B:
        add("RESET_STREAM", ["reset_stream", 0, v, 10])
        add("RESET_STREAM", ["reset_stream", 1, 0, v])
        add("RESET_STREAM", ["reset_stream", 3 if role == "client" else 2, 0, v])
        add("RESET_STREAM", ["reset_stream", v, 0, 0])
        add("STOP_SENDING", ["stop_sending", 0, v])
        add("STOP_SENDING", ["stop_sending", v, 0])
        add("MAX_DATA", ["max_data", v])
        add("MAX_STREAM_DATA", ["max_stream_data", 0, v])
        add("MAX_STREAM_DATA", ["max_stream_data", v, 5])
        add("MAX_STREAMS_BIDI", ["max_streams", 0, v])
        add("MAX_STREAMS_UNI", ["max_streams", 1, v])
        add("DATA_BLOCKED", ["data_blocked", v])
        add("STREAM_DATA_BLOCKED", ["stream_data_blocked", 0, v])
        add("STREAM_DATA_BLOCKED", ["stream_data_blocked", v, v])
        add("STREAMS_BLOCKED_BIDI", ["streams_blocked", 0, v])
        add("STREAMS_BLOCKED_UNI", ["streams_blocked", 1, v])
        add("RETIRE_CONNECTION_ID", ["retire_cid", v])
        add("NEW_CONNECTION_ID", ["new_cid", v, 0, 8, 8, 16])
        add("NEW_CONNECTION_ID", ["new_cid", v, v, 8, 8, 16])
        add("NEW_CONNECTION_ID", ["new_cid", 9, v, 8, 8, 16])
        add("CRYPTO", ["crypto", v, 4, 4])
        add("CRYPTO", ["crypto", 0, v, 4])
        add("NEW_TOKEN", ["new_token", v, min(v, 900)])
        add("CONNECTION_CLOSE", ["close", 0, v, 0, 0, ""])
        add("CONNECTION_CLOSE", ["close", 0, 0, v, 0, ""])
        add("CONNECTION_CLOSE", ["close", 0, 0, 0, v, ""])
        add("CONNECTION_CLOSE_APP", ["close", 1, v, 0, 0, ""])
        add("DATAGRAM_LEN", ["datagram", 1, v, min(v, 900)])
        peer_sid = 0 if role == "server" else 1
        for bits in (2, 6, 7):
            add("STREAM", ["stream", bits, peer_sid, v, 3, 3])
            add("STREAM", ["stream", bits, peer_sid, 0, v, min(v, 900)])
            add("STREAM", ["stream", bits, v, 0, 1, 1])
    for bits in range(8):
        add("STREAM", ["stream", bits, 0 if role == "server" else 1, 0, 10, 10])
        add("STREAM", ["stream", bits, 0 if role == "server" else 1, 0, 0, 0])
        add("STREAM", ["stream", bits, 0 if role == "server" else 1, VMAX - 5, 10, 10])
    ps = 0 if role == "server" else 1
    add("STREAM", ["stream", 3, ps, 0, 5, 5], ["stream", 7, ps, 2, 5, 5])  # data beyond FIN
    add("STREAM", ["stream", 3, ps, 0, 5, 5], ["stream", 3, ps, 0, 3, 3])  # change final size
    add("STREAM", ["stream", 3, ps, 0, 5, 5], ["reset_stream", ps, 0, 9])
    add("STREAM", ["reset_stream", ps, 0, 9], ["stream", 2, ps, 0, 20, 20])
    add("STREAM", ["stream", 6, ps, 1000000, 100, 100])  # near limit
    add("STREAM", ["stream", 6, ps, 1048576 - 10, 10, 10], ["stream", 6, ps, 1048576, 1, 1])
    add("STREAM", ["stop_sending", ps, 1], ["stream", 2, ps, 0, 4, 4], ["max_stream_data", ps, 5])
    # CID management
    for ln in (0, 1, 7, 8, 20, 21, 255):
        add("NEW_CONNECTION_ID", ["new_cid", 9, 0, ln, ln, 16])
    add("NEW_CONNECTION_ID", ["new_cid", 9, 0, 8, 8, 15])
    add("NEW_CONNECTION_ID", ["new_cid", 9, 0, 20, 8, 16])
    add("NEW_CONNECTION_ID", ["new_cid", 2, 3, 8, 8, 16])  # rpt > seq
    add("NEW_CONNECTION_ID", *[["new_cid", i, 0, 8, 8, 16, i] for i in range(2, 12)])  # over the limit
    add("NEW_CONNECTION_ID", *[["new_cid", i, i, 8, 8, 16, i] for i in range(2, 60)])  # retire storm
    add("NEW_CONNECTION_ID", ["new_cid", 5, 0, 8, 8, 16, 5], ["new_cid", 5, 0, 8, 8, 16, 6])  # same seq, different cid
    add("NEW_CONNECTION_ID", ["new_cid", 5, 0, 8, 8, 16, 5], ["new_cid", 5, 5, 8, 8, 16, 5])
    add("NEW_CONNECTION_ID", ["new_cid", 3, 0, 8, 8, 16, 3], ["new_cid", 2, 0, 8, 8, 16, 2], ["new_cid", 2, 2, 8, 8, 16, 2], ["new_cid", 3, 3, 8, 8, 16, 3])
    for s in range(0, 10):
        add("RETIRE_CONNECTION_ID", ["retire_cid", s])
    add("RETIRE_CONNECTION_ID", *[["retire_cid", s] for s in range(1, 8)])
    add("RETIRE_CONNECTION_ID", ["retire_cid", 1], ["retire_cid", 1])
    # path
    for ln in (0, 1, 7, 8):
        add("PATH_CHALLENGE", ["path_challenge", 0xAB, ln])
        add("PATH_RESPONSE", ["path_response", 0xAB, ln])
    add("PATH_CHALLENGE", *[["path_challenge", i, 8] for i in range(100)])
    add("PATH_RESPONSE", ["path_response", 0, 8], ["path_response", 1, 8])
    # close
    for reason in ("", "6f6b", "fffe80", "c328", "00", "e29c" , "41" * 1000):
        add("CONNECTION_CLOSE", ["close", 0, 0x0A, 6, len(bytes.fromhex(reason)), reason])
        add("CONNECTION_CLOSE_APP", ["close", 1, 0x0A, 0, len(bytes.fromhex(reason)), reason])
    add("CONNECTION_CLOSE", ["close", 0, 1, 0, 50, "6f6b"])  # reason length lies
    add("HANDSHAKE_DONE", ["handshake_done"])
    add("HANDSHAKE_DONE", ["handshake_done"], ["handshake_done"])
    add("NEW_TOKEN", ["new_token", 0, 0])
    add("NEW_TOKEN", ["new_token", 16, 16])
    for n in (0, 1, 100, 1000):
        add("DATAGRAM", ["datagram", 0, 0, n])
        add("DATAGRAM_LEN", ["datagram", 1, n, n])
    add("DATAGRAM_LEN", ["datagram", 1, 100, 10])
    # CRYPTO oddities (no TLS content: bytes are zeros -> TLS sees message type 0)
    add("CRYPTO", ["crypto", 0, 0, 0])
    add("CRYPTO", ["crypto", 600000, 1, 1])  # > MAX_PENDING_CRYPTO gap
    add("CRYPTO", ["crypto", 524288, 1, 1])
    add("CRYPTO", ["crypto", 524287, 1, 1])
    add("CRYPTO", ["crypto", VMAX, 1, 1])
    add("CRYPTO", ["crypto", 100, 1000, 1000], ["crypto", 50, 1000, 1000], ["crypto", 3000, 100, 100])
    add("CRYPTO", ["crypto", 4, 4, 4])
    add("CRYPTO", ["crypto", 0, 4, 4])
    # unknown / reserved frame types in every varint encoding
    for t in (0x1F, 0x20, 0x2F, 0x32, 0x3F, 0x40, 0xAF, 0x3FFF, 0x4000, 0x15228C00, (1 << 30), VMAX):
        for size in (1, 2, 4, 8):
            if t < (1 << (8 * size - 2)):
                add("UNKNOWN_TYPE_%d" % size, ["type", t, size, "00"])
    # known types in non-minimal encodings, and a frame type cut in the middle of its varint
    for t in (0x01, 0x02, 0x06, 0x08, 0x1C, 0x1E):
        for size in (2, 4, 8):
            add("NONMINIMAL_TYPE_%d" % size, ["type", t, size, "0000000000"])
    add("TYPE_TRUNCATED", ["ping"], ["raw", "40"])
    add("TYPE_TRUNCATED", ["ping"], ["raw", "80"])
    add("TYPE_TRUNCATED", ["ping"], ["raw", "c0"])
    add("TYPE_TRUNCATED", ["ping"], ["raw", "800000"])
    add("TYPE_TRUNCATED", ["ping"], ["raw", "c0000000000000"])
    add("TYPE_TRUNCATED", ["raw", "40"])
    return out


def truncation_specs(role):
    """one well-formed example per frame type, to be cut at every byte"""
    ps = 0 if role == "server" else 1
    return [
        ("ACK", ["ack", 2, 1000, 20000, 2, 70, [[70, 70], [16384, 5]], None]),
        ("ACK_ECN", ["ack", 3, 1000, 20000, 1, 70, [[70, 70]], [100, 20000, 3]]),
        ("RESET_STREAM", ["reset_stream", ps + 4 * 70, 20000, 70]),
        ("STOP_SENDING", ["stop_sending", ps + 4 * 70, 20000]),
        ("CRYPTO", ["crypto", 20000, 70, 70]),
        ("NEW_TOKEN", ["new_token", 70, 70]),
        ("STREAM", ["stream", 7, ps + 4 * 70, 20000, 70, 70]),
        ("STREAM", ["stream", 5, ps + 4 * 70, 20000, 0, 5]),
        ("MAX_DATA", ["max_data", 1 << 31]),
        ("MAX_STREAM_DATA", ["max_stream_data", ps + 4 * 70, 1 << 31]),
        ("MAX_STREAMS_BIDI", ["max_streams", 0, 20000]),
        ("MAX_STREAMS_UNI", ["max_streams", 1, 20000]),
        ("DATA_BLOCKED", ["data_blocked", 20000]),
        ("STREAM_DATA_BLOCKED", ["stream_data_blocked", ps + 4 * 70, 20000]),
        ("STREAMS_BLOCKED_BIDI", ["streams_blocked", 0, 20000]),
        ("STREAMS_BLOCKED_UNI", ["streams_blocked", 1, 20000]),
        ("NEW_CONNECTION_ID", ["new_cid", 70, 64, 8, 8, 16]),
        ("RETIRE_CONNECTION_ID", ["retire_cid", 20000]),
        ("PATH_CHALLENGE", ["path_challenge", 1, 8]),
        ("PATH_RESPONSE", ["path_response", 1, 8]),
        ("CONNECTION_CLOSE", ["close", 0, 20000, 70, 4, "6f6b6179"]),
        ("CONNECTION_CLOSE_APP", ["close", 1, 20000, 0, 4, "6f6b6179"]),
        ("DATAGRAM_LEN", ["datagram", 1, 70, 70]),
        ("NONMINIMAL_TYPE_4", ["type", 0x08, 4, "00"]),
    ]


REPEATABLE = [
    ("PING", ["ping"]), ("ACK", ["ack", 2, 3, 0, 0, 0, [], None]), ("MAX_DATA", ["max_data", 5]), ("PATH_CHALLENGE", ["path_challenge", 7, 8]),
    ("STREAM", ["stream", 2, 0, 0, 1, 1]), ("STREAM", ["stream", 6, 1, 7, 1, 1]), ("RESET_STREAM", ["reset_stream", 0, 0, 0]),
    ("STOP_SENDING", ["stop_sending", 0, 0]), ("NEW_CONNECTION_ID", ["new_cid", 1, 0, 8, 8, 16]), ("RETIRE_CONNECTION_ID", ["retire_cid", 1]),
    ("HANDSHAKE_DONE", ["handshake_done"]), ("NEW_TOKEN", ["new_token", 1, 1]), ("DATAGRAM_LEN", ["datagram", 1, 1, 1]),
    ("CRYPTO", ["crypto", 0, 0, 0]), ("MAX_STREAMS_BIDI", ["max_streams", 0, 500]), ("STREAMS_BLOCKED_BIDI", ["streams_blocked", 0, 1]),
    ("CONNECTION_CLOSE", ["close", 0, 0, 0, 0, ""]), ("DATA_BLOCKED", ["data_blocked", 1]), ("MAX_STREAM_DATA", ["max_stream_data", 0, 9]),
]


def ptypes_for(st, usable_only=False):
    """packet types the peer holds keys for; usable_only: those the victim can already decrypt"""
    pts = [p for p in ("initial", "handshake", "0rtt", "1rtt") if st.peer.has(p)]
    if usable_only:
        if st.role == "client" and st.name in ("first_flight",):
            pts = [p for p in pts if p == "initial"]
        elif st.role == "client" and st.name in ("after_sh", "after_ee", "after_cert", "after_cv"):
            pts = [p for p in pts if p != "1rtt"]
        elif st.role == "server" and st.name == "after_ch":
            pts = [p for p in pts if p != "1rtt"]
    return pts


def enumerate_frames(st, rng, n, part=0, parts=1):
    """descriptors for family 3 (single packets)."""
    cat = frame_catalogue(st.role, rng)
    pts = ptypes_for(st, usable_only=True)
    early = [p for p in ptypes_for(st) if p not in pts]
    descs = []
    for kind, specs in cat[:: 25]:
        for pt in early:  # keys the victim does not have yet: exercises the key-unavailable path
            descs.append({"fam": "frames", "kind": "KEY_UNAVAILABLE_" + pt, "pt": pt, "fr": specs})
    for i, (kind, specs) in enumerate(cat):
        for pt in pts:
            descs.append({"fam": "frames", "kind": kind, "pt": pt, "fr": specs})
    for kind, spec in truncation_specs(st.role):
        full = build_frame(spec)
        for cut in range(1, len(full)):
            for pt in pts:
                descs.append({"fam": "frames", "kind": kind, "var": "trunc", "pt": pt, "fr": [spec], "cut": cut})
    for kind, spec in REPEATABLE:
        for rep in (2, 10, 100, 1000, 2000):
            for pt in pts:
                descs.append({"fam": "frames", "kind": kind, "var": "rep", "pt": pt, "fr": [spec], "rep": rep})
    # header-level variations of a valid packet
    for pt in pts:
        for rb in (1, 2, 3):
            descs.append({"fam": "frames", "kind": "HDR_RESERVED_BITS", "pt": pt, "fr": [["ping"]], "rb": rb})
        descs.append({"fam": "frames", "kind": "HDR_NO_FIXED_BIT", "pt": pt, "fr": [["ping"]], "nofixed": 1})
        descs.append({"fam": "frames", "kind": "EMPTY_PAYLOAD", "pt": pt, "fr": [], "empty": 1})
        descs.append({"fam": "frames", "kind": "PADDING_ONLY", "pt": pt, "fr": [["padding", 30]]})
        for pnl in (1, 2, 3, 4):
            descs.append({"fam": "frames", "kind": "HDR_PN_LEN", "pt": pt, "fr": [["ping"]], "pnl": pnl})
        for pn in (0, 1, (1 << 16), (1 << 32) - 1, (1 << 32), VMAX - 1, VMAX):
            descs.append({"fam": "frames", "kind": "HDR_PN_VALUE", "pt": pt, "fr": [["ping"]], "pn": pn, "pnl": 4})
        descs.append({"fam": "frames", "kind": "HDR_DUP_PN", "pt": pt, "fr": [["ping"]], "dup": 1})
        if pt == "1rtt":
            descs.append({"fam": "frames", "kind": "HDR_WRONG_KEY_PHASE", "pt": pt, "fr": [["ping"]], "kp": "flip_only"})
            descs.append({"fam": "frames", "kind": "HDR_KEY_UPDATE", "pt": pt, "fr": [["ping"]], "kp": "update"})
            descs.append({"fam": "frames", "kind": "HDR_KEY_UPDATE_TWICE", "pt": pt, "fr": [["ping"]], "kp": "update2"})
            descs.append({"fam": "frames", "kind": "HDR_KEY_UPDATE_THEN_OLD", "pt": pt, "fr": [["ping"]], "kp": "update_old"})
            descs.append({"fam": "frames", "kind": "HDR_OTHER_ADDR", "pt": pt, "fr": [["ping"]], "addr2": 1})
            descs.append({"fam": "frames", "kind": "HDR_OTHER_ADDR", "pt": pt, "fr": [["path_challenge", 1, 8]], "addr2": 1})
            descs.append({"fam": "frames", "kind": "HDR_OTHER_CID", "pt": pt, "fr": [["ping"]], "cid": "issued"})
            descs.append({"fam": "frames", "kind": "HDR_OTHER_CID", "pt": pt, "fr": [["ping"]], "cid": "random"})
        else:
            for vv in ("v1", "v2"):
                descs.append({"fam": "frames", "kind": "HDR_OTHER_VERSION", "pt": pt, "fr": [["ping"]], "ver": vv})
            descs.append({"fam": "frames", "kind": "HDR_SCID_CHANGE", "pt": pt, "fr": [["ping"]], "scid": "aabbccdd"})
            descs.append({"fam": "frames", "kind": "HDR_SCID_EMPTY", "pt": pt, "fr": [["ping"]], "scid": ""})
            if pt == "initial":
                for tl in (1, 100, 1000):
                    descs.append({"fam": "frames", "kind": "HDR_TOKEN", "pt": pt, "fr": [["ping"]], "token": tl})
    # (slices are taken from a fixed shuffle: with two packet types alternating in the list, "every second descriptor"
    # would put all packets of one type into one slice, and the quick tier runs one slice only)
    random.Random(20260922).shuffle(descs)
    descs = [d for i, d in enumerate(descs) if i % parts == part]
    return pick(descs, n, rng)


def mat_frames(st, d):
    peer = st.peer
    pt = d["pt"]
    payload = b"".join(build_frame(s) for s in d["fr"])
    if "cut" in d:
        payload = payload[: d["cut"]]
    if "rep" in d:
        payload = payload * d["rep"]
    kw = {}
    if d.get("rb"):
        kw["reserved_bits"] = d["rb"]
    if d.get("nofixed"):
        kw["fixed_bit"] = False
    if "pnl" in d:
        kw["pn_len"] = d["pnl"]
    if "pn" in d:
        kw["pn"] = d["pn"]
    if "ver" in d:
        kw["version"] = {"v1": V1, "v2": V2}[d["ver"]]
        if pt == "initial":
            c, s = rc.initial_keys(kw["version"], peer.odcid)
            kw["keys"] = c if peer.role == "client" else s
    if "scid" in d:
        kw["scid"] = bytes.fromhex(d["scid"])
    if "token" in d:
        kw["token"] = b"T" * d["token"]
    addr = CLIENT_ADDR2 if d.get("addr2") else None
    if d.get("cid") == "issued":
        cids = st.info.get("victim_cids") or []
        live = [bytes(c.cid) for c in st.drv.conn._host_cids]
        others = [c for c in live if c != peer.dcid]
        kw["dcid"] = others[-1] if others else (cids[0] if cids else peer.dcid)
    elif d.get("cid") == "random":
        kw["dcid"] = bytes([0xD0 + i for i in range(len(peer.dcid))])
    need_pad = pt == "initial" and peer.role == "client"
    if need_pad:
        kw["pad_to"] = 1200
    out = []
    kp = d.get("kp")
    if kp == "flip_only":
        kw["key_phase"] = peer.key_phase ^ 1
    elif kp in ("update", "update2", "update_old"):
        old = peer.clone()
        peer.key_update()
        if kp == "update2":
            out.append((peer.packet(pt, b"\x01"), None))
            peer.key_update()
        if kp == "update_old":
            out.append((peer.packet(pt, b"\x01"), None))
            out.append((old.packet(pt, payload, pn=peer.next_pn["A"] + 5), None))
            return out
    if d.get("empty"):
        # a protected packet whose plaintext payload is empty cannot be sampled for header
        # protection with a short pn; use pn_len 4 so that 4+0+16 >= 20 bytes follow
        kw["pn_len"] = 4
        pkt = _packet_exact(peer, pt, b"", **kw)
    else:
        pkt = peer.packet(pt, payload, **kw)
    out.append((pkt, addr))
    if d.get("dup"):
        out.append((pkt, addr))
    return out


def _packet_exact(peer, ptype, payload, **kw):
    """like Peer.packet but without the minimum-payload padding (payload may be empty)."""
    kw.pop("pad_to", None)
    pn_len = kw.get("pn_len", 2)
    space = {"initial": "I", "handshake": "H", "0rtt": "A", "1rtt": "A"}[ptype]
    pn = kw.get("pn")
    if pn is None:
        pn = peer.next_pn[space]
        peer.next_pn[space] = pn + 1
    keys = kw.get("keys") or peer.keys[ptype]
    dcid = kw.get("dcid", peer.dcid)
    version = kw.get("version", peer.version)
    if ptype == "1rtt":
        first = 0x40 | (peer.key_phase << 2) | (pn_len - 1)
        hdr = bytes([first]) + dcid
    else:
        scid = kw.get("scid", peer.scid)
        first = 0xC0 | (TYPE_CODE[version][ptype] << 4) | (pn_len - 1)
        hdr = bytes([first]) + version.to_bytes(4, "big") + bytes([len(dcid)]) + dcid + bytes([len(scid)]) + scid
        if ptype == "initial":
            hdr += b"\x00"
        hdr += F.enc_varint(pn_len + len(payload) + 16, 2)
    return rc.protect(keys, hdr, pn, pn_len, payload)


# ----------------------------------------------------------------------------- family 1: raw


def _rb(rng, n):
    return rng.getrandbits(8 * n).to_bytes(n, "big") if n else b""


def _victim_cid(st):
    cids = st.info.get("victim_cids") or [b""]
    return cids[0]


def long_header(first, version, dcid, scid, rest, dcil=None, scil=None):
    return (bytes([first]) + version.to_bytes(4, "big") + bytes([len(dcid) if dcil is None else dcil]) + dcid
            + bytes([len(scid) if scil is None else scil]) + scid + rest)


VERSION_CHOICES = [("v1", V1), ("v2", V2), ("zero", 0), ("unknown", 0xFACEB00C), ("grease", 0x1A2A3A4A), ("draft29", 0xFF00001D), ("ffffffff", 0xFFFFFFFF)]


def enumerate_raw(st, rng, n, part=0, parts=1):
    """Random bytes of every length, grammar-built headers, Version Negotiation / Retry packets,
    coalesced mixes.  Raw descriptors carry their bytes as hex (self-contained replay)."""
    descs = []
    vcid = _victim_cid(st)
    odcid = st.info.get("odcid") or b""
    peer = st.peer
    pend = list(st.info.get("pending") or [])

    def add(kind, data, **kw):
        descs.append(dict({"fam": "raw", "kind": kind, "hex": data.hex()}, **kw))

    # (a) random bytes of all lengths 0..1500 (+ sampled up to 65535)
    lengths = [l for l in range(0, 1501) if l % parts == part]
    for l in lengths:
        add("RANDOM", _rb(rng, l))
    for _ in range(max(4, 40 // parts)):
        add("RANDOM_BIG", _rb(rng, rng.choice([1501, 2000, 4096, 9000, 16384, 65535, rng.randrange(1501, 65536)])))
    # (b) random bodies behind a plausible first byte / version / connection id
    for l in lengths[:: 3]:
        ver = rng.choice([V1, V2])
        first = 0xC0 | rng.randrange(64)
        dcid = rng.choice([vcid, odcid, _rb(rng, 8)])
        add("RANDOM_AFTER_LONG_HDR", long_header(first, ver, dcid, peer.scid, _rb(rng, l)))
        add("RANDOM_AFTER_SHORT_HDR", bytes([0x40 | rng.randrange(64)]) + rng.choice([vcid, _rb(rng, len(vcid))]) + _rb(rng, l))
    # (c) grammar: every packet type x version x CID lengths x token/length varints
    cidlens = [0, 1, 7, 8, 19, 20, 21, 64, 255]
    for vname, ver in VERSION_CHOICES:
        for tbits in range(4):
            for fixed in (0x40, 0):
                first = 0x80 | fixed | (tbits << 4) | rng.randrange(16)
                for dl in cidlens:
                    dcid = (vcid * 40)[:dl] if dl in (len(vcid),) else _rb(rng, min(dl, 300))
                    if dl == len(vcid) and rng.random() < 0.7:
                        dcid = vcid
                    for length_kind in ("ok", "zero", "over", "huge8", "trunc", "none"):
                        body = _rb(rng, 40)
                        if length_kind == "ok":
                            rest = ev(len(body), 2) + body
                        elif length_kind == "zero":
                            rest = ev(0) + body
                        elif length_kind == "over":
                            rest = ev(len(body) + 100, 2) + body
                        elif length_kind == "huge8":
                            rest = ev(VMAX, 8) + body
                        elif length_kind == "trunc":
                            rest = b"\x80\x00"
                        else:
                            rest = b""
                        tok = b"\x00"
                        add("HDR_%s_t%d" % (vname, tbits), long_header(first, ver, dcid, peer.scid, tok + rest))
        # declared CID length larger than what is present (truncated CID)
        for dl in (1, 8, 20, 21, 255):
            add("HDR_TRUNC_CID_" + vname, bytes([0xC0]) + ver.to_bytes(4, "big") + bytes([dl]) + _rb(rng, dl // 2))
            add("HDR_TRUNC_SCID_" + vname, bytes([0xC0]) + ver.to_bytes(4, "big") + bytes([len(vcid)]) + vcid + bytes([dl]) + _rb(rng, dl // 2))
        for cut in range(0, 8):
            add("HDR_TRUNC_FIXED_" + vname, (bytes([0xC0]) + ver.to_bytes(4, "big") + bytes([len(vcid)]) + vcid)[:cut])
    # token length variants on Initial packets for supported versions
    for ver in (V1, V2):
        first = 0xC0 | (TYPE_CODE[ver]["initial"] << 4)
        for tok in (ev(0), ev(5) + b"tokn!", ev(5) + b"to", ev(16383, 2), ev((1 << 30) - 1, 4), ev(VMAX, 8), b"\x40", b"\x80\x00\x00", b""):
            for pad in (0, 1200):
                pkt = long_header(first, ver, odcid or vcid, peer.scid, tok + ev(60, 2) + _rb(rng, 60))
                add("HDR_INITIAL_TOKEN", pkt + bytes(max(0, pad - len(pkt))))
    # short headers
    for first in (0x40, 0x41, 0x43, 0x44, 0x58, 0x5F, 0x60, 0x7F, 0x00, 0x3F):
        for cid in (vcid, _rb(rng, len(vcid)), vcid[: max(0, len(vcid) - 1)], b""):
            for bl in (0, 1, 3, 4, 19, 20, 21, 100, 1300):
                add("HDR_SHORT", bytes([first]) + cid + _rb(rng, bl))
    # (d) Version Negotiation
    for dcid in (vcid, _rb(rng, 8), b"", _rb(rng, 20)):
        for scid in (odcid, peer.scid, b"", _rb(rng, 20), _rb(rng, 255)):
            for label, versions in (("none", b""), ("v1", V1.to_bytes(4, "big")), ("v2", V2.to_bytes(4, "big")), ("unknown", b"\xfa\xce\xb0\x0c"),
                                    ("v2+unknown", V2.to_bytes(4, "big") + b"\x1a\x2a\x3a\x4a"), ("many", b"\x0a\x0a\x0a\x0a" * 300 + V2.to_bytes(4, "big")),
                                    ("odd1", V2.to_bytes(4, "big") + b"\x00"), ("odd3", b"\x00\x00\x01"), ("zero", bytes(4)), ("v1+v2", V1.to_bytes(4, "big") + V2.to_bytes(4, "big"))):
                add("VERSION_NEGOTIATION_" + label, long_header(0x80 | rng.randrange(128), 0, dcid, scid, versions, scil=None if len(scid) < 256 else 255))
    # (e) Retry
    for ver in (V1, V2):
        first = 0xC0 | (TYPE_CODE[ver]["retry"] << 4) | rng.randrange(16)
        for dcid in (vcid, _rb(rng, 8)):
            for new_scid in (_rb(rng, 8), b"", _rb(rng, 20)):
                for tl in (0, 1, 16, 100, 1100, 1200, 1400, 5000):
                    wo = long_header(first, ver, dcid, new_scid, b"K" * tl)
                    tag = rc.retry_tag(ver, odcid, wo)
                    add("RETRY_VALID_tok%d" % tl, wo + tag)
                for label, tail in (("notag", b""), ("tag8", bytes(8)), ("tag15", bytes(15)), ("badtag", b"tok" + bytes(16)), ("tagonly", bytes(16))):
                    add("RETRY_" + label, long_header(first, ver, dcid, new_scid, tail))
    # (f) coalesced mixes of genuine and generated packets (genuine part named symbolically)
    junk_long = long_header(0xC0 | (TYPE_CODE[V1]["handshake"] << 4), V1, vcid, peer.scid, ev(30, 2) + _rb(rng, 30))
    junk_short = bytes([0x40]) + vcid + _rb(rng, 30)
    for gi in range(min(3, len(pend))):
        nm = "pending%d" % gi
        for kind, pre, post, twice in (("COALESCE_genuine+junk_long", b"", junk_long, 0), ("COALESCE_genuine+junk_short", b"", junk_short, 0),
                                       ("COALESCE_genuine+random", b"", _rb(rng, 50), 0), ("COALESCE_genuine+genuine", b"", b"", 1),
                                       ("COALESCE_junk_long+genuine", junk_long, b"", 0), ("COALESCE_vn+genuine", long_header(0x80, 0, vcid, peer.scid, b""), b"", 0),
                                       ("COALESCE_genuine+zeros", b"", bytes(200), 0)):
            descs.append({"fam": "raw", "kind": kind, "hex": "", "src": nm, "pre": pre.hex(), "post": post.hex(), "twice": twice})
    descs2 = [d for i, d in enumerate(descs) if d["kind"] in ("RANDOM", "RANDOM_AFTER_LONG_HDR", "RANDOM_AFTER_SHORT_HDR", "RANDOM_BIG") or i % parts == part]
    return pick(descs2, n, rng)


def mat_raw(st, d):
    if "src" in d:
        g = _sources(st).get(d["src"], b"")
        return [(bytes.fromhex(d["pre"]) + g * (2 if d.get("twice") else 1) + bytes.fromhex(d["post"]), None)]
    return [(bytes.fromhex(d["hex"]), None)]


# ----------------------------------------------------------------------------- family 2: mutated genuine


def split_coalesced(dgram):
    """Split a datagram into its QUIC packets using only the unprotected long-header length fields."""
    out = []
    p = 0
    while p < len(dgram):
        first = dgram[p]
        if not first & 0x80:
            out.append(dgram[p:])
            break
        try:
            r = F.Reader(dgram, p + 1)
            ver = r.uint(4)
            r.take(r.u8())
            r.take(r.u8())
            code = (first >> 4) & 3
            tmap = {v: k for k, v in TYPE_CODE.get(ver, TYPE_CODE[V1]).items()}
            if tmap.get(code) == "initial":
                r.take(r.varint())
            if tmap.get(code) == "retry" or ver == 0:
                out.append(dgram[p:])
                break
            ln = r.varint()
            end = r.p + ln
        except F.ParseError:
            out.append(dgram[p:])
            break
        if end > len(dgram) or ln == 0 and all(b == 0 for b in dgram[p:]):
            out.append(dgram[p:])
            break
        out.append(dgram[p:end])
        p = end
    return out


def _sources(st):
    src = {}
    for i, g in enumerate(st.info.get("pending") or []):
        src["pending%d" % i] = g
    for i, g in enumerate((st.info.get("victim_out") or [])[:2]):
        src["reflected%d" % i] = g
    for i, g in enumerate((st.info.get("first") or [])[:1]):
        src["first%d" % i] = g
    return src


def enumerate_mut(st, rng, n, part=0, parts=1):
    """Descriptors name their genuine source datagram symbolically (the bytes depend on the
    connection's keys), so that a replay on a freshly prepared state mutates *its* datagrams."""
    descs = []
    sources = sorted(_sources(st).items())

    def add(kind, src, *m, **kw):
        descs.append(dict({"fam": "mut", "kind": kind, "src": src, "m": list(m)}, **kw))

    for name, g in sources:
        src = name.rstrip("0123456789")
        L = len(g)
        positions = list(range(min(L, 72))) + sorted(rng.sample(range(min(L, 72), L), min(40, max(0, L - 72))))
        for pos in positions:
            for x in (0x01, 0x80, 0xFF, 0x40):
                add("FLIP_%s_%s" % (src, "hdr" if pos < 72 else "body"), name, "flip", pos, x)
        cuts = list(range(0, min(L, 90))) + sorted(rng.sample(range(min(L, 90), L), min(60, max(0, L - 90))))
        for c in cuts:
            add("TRUNCATE_" + src, name, "trunc", c)
        for ext in (1, 16, 300):
            add("EXTEND_" + src, name, "extend", ext, rng.randrange(1 << 30))
            add("EXTEND_ZERO_" + src, name, "extend", ext, None)
        add("PREPEND_" + src, name, "prepend", 5, rng.randrange(1 << 30))
        add("DUP_" + src, name, "times", 3)
        pk = split_coalesced(g)
        if len(pk) > 1:
            add("REORDER_PACKETS_" + src, name, "reorder")
            for i in range(len(pk)):
                add("SINGLE_PACKET_" + src, name, "single", i)
                add("DROP_PACKET_" + src, name, "drop", i)
        for a, bnd in ((1, 5), (5, 6), (6, 14), (0, 1)):
            add("FIELD_RANDOM_%s_%d" % (src, a), name, "field", a, bnd, rng.randrange(1 << 30))
    for (n1, g1) in sources:
        for (n2, g2) in sources:
            if n1 == n2:
                continue
            for _ in range(6):
                add("SPLICE", n1, "splice", n2, rng.randrange(0, len(g1) + 1), rng.randrange(0, len(g2) + 1))
            add("CONCAT", n1, "splice", n2, len(g1), 0)
    pend = [nme for nme, g in sources if nme.startswith("pending")]
    if len(pend) > 1:
        descs.append({"fam": "mut", "kind": "REORDER_DATAGRAMS", "seq": list(reversed(pend))})
        descs.append({"fam": "mut", "kind": "DUPLICATE_DATAGRAMS", "seq": pend + pend})
    if pend:
        descs.append({"fam": "mut", "kind": "GENUINE_FROM_OTHER_ADDR", "seq": pend, "addr2": 1})
        descs.append({"fam": "mut", "kind": "GENUINE", "seq": pend})
    descs = [d for i, d in enumerate(descs) if i % parts == part]
    return pick(descs, n, rng)


def mat_mut(st, d):
    addr = CLIENT_ADDR2 if d.get("addr2") else None
    src = _sources(st)
    if "seq" in d:
        return [(src[nme], addr) for nme in d["seq"] if nme in src]
    g = src.get(d["src"])
    if g is None:
        return []
    m = d["m"]
    op = m[0]
    times = 1
    if op == "flip":
        b = bytearray(g)
        if b:
            b[m[1] % len(b)] ^= m[2]
        g = bytes(b)
    elif op == "trunc":
        g = g[: m[1]]
    elif op == "extend":
        g = g + (bytes(m[1]) if m[2] is None else _rb(random.Random(m[2]), m[1]))
    elif op == "prepend":
        g = _rb(random.Random(m[2]), m[1]) + g
    elif op == "times":
        times = m[1]
    elif op in ("reorder", "single", "drop"):
        pk = split_coalesced(g)
        if op == "reorder":
            g = b"".join(reversed(pk))
        elif op == "single":
            g = pk[m[1] % len(pk)]
        else:
            g = b"".join(q for j, q in enumerate(pk) if j != m[1] % len(pk))
    elif op == "field":
        b = bytearray(g)
        b[m[1]: m[2]] = _rb(random.Random(m[3]), m[2] - m[1])
        g = bytes(b)
    elif op == "splice":
        g2 = src.get(m[1], b"")
        g = g[: m[2]] + g2[m[3]:]
    return [(g, addr)] * times


# ----------------------------------------------------------------------------- family 4: TLS messages

MSG_ORDER = ["SH", "EE", "CERT", "CV", "FIN"]  # client victim: genuine server flight


def _hs_index(st, mtype):
    """index in the genuine server handshake flight of the message with TLS type mtype"""
    for i, (t, _b, _r) in enumerate(st.info.get("hs_msgs") or []):
        if t == mtype:
            return i
    return None


def enumerate_tls(st, rng, n, part=0, parts=1):
    descs = []
    info = st.info

    def add(msg, label, op, **kw):
        kind = label.split("=")[0]
        descs.append(dict({"fam": "tls", "kind": "%s:%s" % (msg, kind), "msg": msg, "label": label, "op": op}, **kw))

    if st.role == "server":
        if "ch" not in info:
            # post-handshake / established server: any handshake message is hostile
            for label, op in T.nst_catalogue():
                add("POST", label, op)
            for label, op in T.fin_catalogue()[:6]:
                add("POST_FIN", label, op)
        else:
            from .c05_lib import split_tls

            body = split_tls(info["ch"])[0][1]
            for label, op in T.ch_catalogue(body):
                add("CH", label, op)
            # splits of the genuine ClientHello across CRYPTO frames / packets
            raw_len = len(info["ch"])
            cuts = list(range(1, raw_len))
            for c in cuts:
                add("CH", "split", ["none"], split=[c], kindx="split")
            for c in cuts[:: 7]:
                add("CH", "split-reversed", ["none"], split=[c], reverse=1)
                add("CH", "split-overlap", ["none"], split=[c], overlap=3)
                add("CH", "split-same-packet", ["none"], split=[c], same_packet=1)
            add("CH", "split-every-byte", ["none"], split=list(range(1, raw_len)), same_packet=1)
            add("CH", "split-3", ["none"], split=[10, 100])
            add("CH", "gap-over-max-pending", ["none"], offset=600000)
            add("CH", "gap-at-max-pending", ["none"], offset=524288 - raw_len)
            add("CH", "offset-near-2^62", ["none"], offset=VMAX - raw_len)
            add("CH", "second-half-only", ["none"], only_from=raw_len // 2)
            if st.name == "after_ch":
                # client Finished variants (Handshake epoch) toward a server expecting Finished
                for label, op in T.fin_catalogue():
                    add("CFIN", label, op)
                for label, op in T.cert_catalogue()[:8]:
                    add("CCERT", label, op)
    else:
        if "sh" in info:
            from .c05_lib import split_tls

            sh_body = split_tls(info["sh"])[0][1]
            for label, op in T.sh_catalogue(sh_body):
                add("SH", label, op)
            i_ee = _hs_index(st, T.EE)
            if i_ee is not None:
                for label, op in T.ee_catalogue(info["hs_msgs"][i_ee][1]):
                    add("EE", label, op)
            for label, op in T.cert_catalogue():
                add("CERT", label, op)
            for label, op in T.cv_catalogue():
                add("CV", label, op)
            for label, op in T.fin_catalogue():
                add("FIN", label, op)
            for label, op in T.cr_catalogue():
                add("CR", label, op)
            for label, op in T.nst_catalogue():
                add("NST", label, op)
            # splits of the next genuine message at every byte
            nxt = info.get("hs_next", 0)
            if st.name == "first_flight":
                raw_len = len(info["sh"])
                for c in range(1, raw_len):
                    add("SH", "split", ["none"], split=[c])
                add("SH", "split-every-byte", ["none"], split=list(range(1, raw_len)), same_packet=1)
                add("SH", "gap-over-max-pending", ["none"], offset=600000)
            elif nxt < len(info["hs_msgs"]):
                mname = {T.EE: "EE", T.CERT: "CERT", T.CV: "CV", T.FIN: "FIN", T.CR: "CR"}.get(info["hs_msgs"][nxt][0])
                raw_len = len(info["hs_msgs"][nxt][2])
                step = 1 if raw_len < 400 else 9
                if mname:
                    for c in range(1, raw_len, step):
                        add(mname, "split", ["none"], split=[c])
                    add(mname, "gap-over-max-pending", ["none"], offset=600000)
                    add(mname, "rest-of-flight-genuine", ["none"], rest=1)
        else:
            for label, op in T.nst_catalogue():
                add("NST", label, op)
            for label, op in T.fin_catalogue()[:6]:
                add("POST_FIN", label, op)
            for label, op in T.cr_catalogue():
                add("POST_CR", label, op)
    descs = [d for i, d in enumerate(descs) if i % parts == part]
    return pick(descs, n, rng)


def _chunks(raw, cuts):
    pts = [0] + sorted(cuts) + [len(raw)]
    return [(pts[i], raw[pts[i]: pts[i + 1]]) for i in range(len(pts) - 1)]


def _deliver_crypto(st, ptype, raw, base_off, d):
    """packets for CRYPTO data `raw` at stream offset base_off, honouring split/reverse/overlap."""
    peer = st.peer
    pad = ptype == "initial" and peer.role == "client"
    off = base_off + d.get("offset", 0)
    if d.get("only_from"):
        raw, off = raw[d["only_from"]:], off + d["only_from"]
    if "split" in d:
        parts = _chunks(raw, d["split"])
        if d.get("overlap"):
            parts = [(max(0, o - d["overlap"]), raw[max(0, o - d["overlap"]): o + len(b)]) for o, b in parts]
        if d.get("reverse"):
            parts = list(reversed(parts))
        if d.get("same_packet"):
            out = []
            payload = b""
            for o, b in parts:
                fr = F.f_crypto(off + o, b)
                if len(payload) + len(fr) > 1050:
                    out.append((peer.packet(ptype, payload, pad_to=1200 if pad else None), None))
                    payload = b""
                payload += fr
            if payload:
                out.append((peer.packet(ptype, payload, pad_to=1200 if pad else None), None))
            return out
        out = []
        for o, b in parts:
            for pkt in peer.crypto_packets(ptype, b, offset=off + o, pad_initial=pad):
                out.append((pkt, None))
        return out
    return [(pkt, None) for pkt in peer.crypto_packets(ptype, raw, offset=off, pad_initial=pad)]


def mat_tls(st, d):
    from .c05_lib import split_tls

    info = st.info
    rng = random.Random(d.get("label", "") + "/" + str(d.get("split", "")))
    op = tuple(d["op"])
    m = d["msg"]
    if st.role == "server":
        if m == "CH":
            body = split_tls(info["ch"])[0][1]
            raw = T.apply_ch(body, op, rng)
            base = info.get("ch_delivered", 0) if st.name == "partial_ch" and "split" not in d and op == ("none",) else 0
            if st.name == "partial_ch" and op == ("none",) and "split" not in d and "offset" not in d:
                return _deliver_crypto(st, "initial", raw[base:], base, d)
            return _deliver_crypto(st, "initial", raw, 0, d)
        if m in ("CFIN", "CCERT"):
            hs = split_tls(info.get("client_hs") or b"")
            fin = [b for t, b, _r in hs if t == T.FIN]
            if m == "CFIN":
                raw = T.apply_fin(fin[0] if fin else bytes(32), op, rng)
            else:
                raw = T.apply_cert(T.build_cert({"ctx": b"", "entries": [(T.self_signed("p256"), b"")]}), op, rng)
            return _deliver_crypto(st, "handshake", raw, 0, d)
        # established server
        raw = T.apply_nst(op, rng) if m == "POST" else T.apply_fin(bytes(32), op, rng)
        off = st.drv.conn._crypto_streams[_epoch("1rtt")].receiver.starting_offset() if "1rtt" in st.peer.keys else 0
        return _deliver_crypto(st, "1rtt", raw, off, d)
    # ---- client victim
    if "sh" in info:
        if m == "SH":
            raw = T.apply_sh(split_tls(info["sh"])[0][1], op, rng)
            return _deliver_crypto(st, "initial", raw, len(info["sh"]) if st.name != "first_flight" else 0, d)
        hs_off = info.get("hs_off", 0)
        ptype = "handshake"
        if m == "EE":
            raw = T.apply_ee(info["hs_msgs"][_hs_index(st, T.EE)][1], op, rng)
        elif m == "CERT":
            raw = T.apply_cert(info["hs_msgs"][_hs_index(st, T.CERT)][1], op, rng)
        elif m == "CV":
            raw = T.apply_cv(info["hs_msgs"][_hs_index(st, T.CV)][1], op, rng)
        elif m == "FIN":
            raw = T.apply_fin(info["hs_msgs"][_hs_index(st, T.FIN)][1], op, rng)
        elif m == "CR":
            raw = T.apply_cr(op, rng) if op[0] != "none" else b""
        elif m == "NST":
            raw = T.apply_nst(op, rng)
            if st.name == "after_fin":
                ptype, hs_off = "1rtt", 0
        else:
            raise ValueError(m)
        if op == ("none",) and ("split" in d or "offset" in d or d.get("rest")):
            nxt = info.get("hs_next", 0)
            raw = b"".join(r for _t, _b, r in info["hs_msgs"][nxt:]) if d.get("rest") else info["hs_msgs"][nxt][2]
        if st.name == "first_flight":
            # handshake keys exist only after a ServerHello: deliver the genuine one first
            pre = _deliver_crypto(st, "initial", info["sh"], 0, {})
            return pre + _deliver_crypto(st, ptype, raw, hs_off, d)
        return _deliver_crypto(st, ptype, raw, hs_off, d)
    # established client
    if m == "NST":
        raw = T.apply_nst(op, rng)
    elif m == "POST_FIN":
        raw = T.apply_fin(bytes(32), op, rng)
    else:
        raw = T.apply_cr(op, rng)
    off = st.drv.conn._crypto_streams[_epoch("1rtt")].receiver.starting_offset()
    return _deliver_crypto(st, "1rtt", raw, off, d)


def _epoch(name):
    from aioquic import tls

    return {"initial": tls.Epoch.INITIAL, "handshake": tls.Epoch.HANDSHAKE, "1rtt": tls.Epoch.ONE_RTT}[name]


# ----------------------------------------------------------------------------- histories (family 3, multi-packet)


def enumerate_hist(st, rng, n, part=0, parts=1):
    descs = []

    def add(kind, **kw):
        descs.append(dict({"fam": "hist", "kind": kind}, **kw))

    has1 = st.peer.has("1rtt") and st.name not in ("after_ch", "first_flight", "after_sh", "after_ee", "after_cert", "after_cv")
    for pt in ptypes_for(st):
        if pt == "1rtt" and not has1:
            continue
        for count in (5, 60, 200, 400, 700, 1500):
            add("ACK_RANGE_GROWTH", pt=pt, count=count, stride=2)
        add("ACK_RANGE_GROWTH", pt=pt, count=300, stride=70)
    if has1:
        # connection-id histories
        add("NCID_F4_OUT_OF_ORDER_THEN_SWITCH")
        for s in range(40):
            add("NCID_RANDOM_HISTORY", seed=rng.randrange(1 << 30), steps=rng.choice([6, 12, 30, 60]))
        import itertools

        for order in itertools.permutations([11, 12, 13]):
            for nswitch in (0, 1, 2):
                for rep in (11, 12, 13):
                    for rpt in (rep, 11):
                        add("NCID_PERMUTED_THEN_REPEAT", order=list(order), nswitch=nswitch, rep=rep, rpt=rpt)
        add("RETIRE_ALL_THEN_USE_RETIRED")
        add("MANY_STREAMS", count=128)
        add("MANY_STREAMS", count=600)
        add("PATH_CHALLENGE_FLOOD", count=500)
        add("MIGRATION_PINGPONG", count=20)
        add("STREAM_REASSEMBLY_HOLES", count=400)
        add("FLOW_CONTROL_EDGE")
        add("KEY_UPDATE_STORM", count=12)
        add("RESET_AFTER_DATA_ACKS")
        add("ACK_EVERYTHING_THEN_GARBAGE_ACKS")
        for s_ in range(16):
            add("ACK_INTERPLAY_RANDOM", seed=rng.randrange(1 << 30), steps=rng.choice([4, 10, 25, 60]))
    if st.role == "client" and st.name == "first_flight":
        for tl in (0, 16, 1100, 1180, 1300, 3000):
            add("RETRY_THEN_BAD_INITIAL", token=tl)
            add("RETRY_THEN_GENUINE_SH", token=tl)
        add("VN_V2_THEN_JUNK")
        add("VN_UNKNOWN_ONLY")
        add("RETRY_TWICE")
    if st.role == "server" and st.name == "fresh":
        add("GARBAGE_THEN_GENUINE")
        add("SMALL_INITIAL_THEN_GENUINE")
        add("UNDECRYPTABLE_INITIAL_THEN_GENUINE")
        add("INITIAL_OTHER_VERSION_THEN_GENUINE")
        add("INITIAL_NO_CRYPTO")
        add("INITIAL_ACK_ONLY")
        add("INITIAL_CLOSE_FIRST")
    descs = [d for i, d in enumerate(descs) if i % parts == part]
    return pick(descs, n, rng)


class Script:
    """A history is materialised lazily: a list of callables(st) -> [(dgram, addr)] so that later
    packets can depend on what the victim did (e.g. connection ids it issued)."""

    def __init__(self, steps):
        self.steps = steps


def mat_hist(st, d):
    peer = st.peer
    k = d["kind"]
    pad = lambda pt: 1200 if (pt == "initial" and peer.role == "client") else None  # noqa: E731
    out = []
    if k == "ACK_RANGE_GROWTH":
        pt = d["pt"]
        base = peer.next_pn[SPACE_OF[pt]]
        body = b"\x01" if pt != "initial" or peer.role != "client" or st.name != "fresh" else F.f_crypto(0, (st.info.get("ch") or b"\x00"))
        for i in range(d["count"]):
            out.append((peer.packet(pt, body if i == 0 else b"\x01", pn=base + i * d["stride"], pn_len=4, pad_to=pad(pt)), None))
        peer.next_pn[SPACE_OF[pt]] = base + d["count"] * d["stride"] + 1
        return out
    if k == "NCID_F4_OUT_OF_ORDER_THEN_SWITCH":
        n0 = 20
        out.append((peer.packet("1rtt", build_frame(["new_cid", n0, n0, 8, 8, 16, 0xA0])), None))  # uses up all spares
        out.append((peer.packet("1rtt", build_frame(["new_cid", n0 + 2, n0, 8, 8, 16, 0xA2])), None))
        out.append((peer.packet("1rtt", build_frame(["new_cid", n0 + 1, n0, 8, 8, 16, 0xA1])), None))
        out.append((peer.packet("1rtt", build_frame(["new_cid", n0 + 1, n0 + 1, 8, 8, 16, 0xA1])), None))
        return Script([lambda s: out, _switch_cid, lambda s: [(s.peer.packet("1rtt", build_frame(["new_cid", n0 + 2, n0 + 2, 8, 8, 16, 0xA2])), None)]])
    if k == "NCID_RANDOM_HISTORY":
        r = random.Random(d["seed"])
        steps = []
        hi = 1
        seen = []
        for _ in range(d["steps"]):
            c = r.random()
            if c < 0.55:
                seq = r.choice([hi, hi + 1, hi + 2, r.randrange(0, hi + 3)])
                if seen and r.random() < 0.3:
                    seq = r.choice(seen)  # a repeated sequence number (retransmission), possibly one already used and retired
                rpt = r.choice([0, seq, seq, max(0, seq - 1), r.randrange(0, seq + 1)])
                seen.append(seq)
                hi = max(hi, seq + 1)
                fr = ["new_cid", seq, rpt, 8, 8, 16, 0x80 + (seq & 0x3F)]
                steps.append(lambda s, fr=fr: [(s.peer.packet("1rtt", build_frame(fr)), None)])
            elif c < 0.75:
                fr = ["retire_cid", r.randrange(0, 10)]
                steps.append(lambda s, fr=fr: [(s.peer.packet("1rtt", build_frame(fr)), None)])
            else:
                steps.append(_switch_cid)
        return Script(steps)
    if k == "NCID_PERMUTED_THEN_REPEAT":
        # connection IDs arriving out of numeric order are consumed in arrival order; after some switches an
        # already used (and retired) sequence number is repeated with a Retire Prior To that covers everything left
        def ncid(seq, rpt):
            return lambda s, seq=seq, rpt=rpt: [(s.peer.packet("1rtt", build_frame(["new_cid", seq, rpt, 8, 8, 16, 0x40 + (seq & 0x3F)])), None)]

        steps = [ncid(10, 8)] + [ncid(q, 0) for q in d["order"]] + [_switch_cid] * d["nswitch"] + [ncid(d["rep"], d["rpt"]), _switch_cid]
        return Script(steps)
    if k == "RETIRE_ALL_THEN_USE_RETIRED":
        return Script([lambda s: [(s.peer.packet("1rtt", b"".join(build_frame(["retire_cid", i]) for i in range(1, 8))), None)], _switch_cid,
                       lambda s: [(s.peer.packet("1rtt", b"\x01", dcid=bytes(8)), None)]])
    if k == "MANY_STREAMS":
        base = 0 if peer.role == "client" else 1
        for i in range(d["count"]):
            sid = base + 4 * (20 + i)
            out.append((peer.packet("1rtt", build_frame(["stream", 2, sid, 0, 1, 1]) + build_frame(["stream", 2, sid + 2, 0, 1, 1])), None))
        return out
    if k == "PATH_CHALLENGE_FLOOD":
        for i in range(d["count"]):
            out.append((peer.packet("1rtt", build_frame(["path_challenge", i & 0xFF, 8])), CLIENT_ADDR2 if i % 3 == 0 else None))
        return out
    if k == "MIGRATION_PINGPONG":
        for i in range(d["count"]):
            out.append((peer.packet("1rtt", b"\x01"), CLIENT_ADDR2 if i % 2 else None))
        return out
    if k == "STREAM_REASSEMBLY_HOLES":
        sid = 40 if peer.role == "client" else 41
        for i in range(d["count"]):
            out.append((peer.packet("1rtt", build_frame(["stream", 6, sid, 10 + 3 * i, 1, 1])), None))
        out.append((peer.packet("1rtt", build_frame(["stream", 7, sid, 0, 10, 10])), None))
        return out
    if k == "FLOW_CONTROL_EDGE":
        sid = 44 if peer.role == "client" else 45
        out.append((peer.packet("1rtt", build_frame(["stream", 6, sid, 1048575, 1, 1])), None))
        out.append((peer.packet("1rtt", build_frame(["stream", 6, sid + 4, 1048575, 1, 1])), None))
        out.append((peer.packet("1rtt", build_frame(["reset_stream", sid + 8, 0, 1048576])), None))
        out.append((peer.packet("1rtt", build_frame(["stream", 6, sid + 12, 1048576, 1, 1])), None))
        return out
    if k == "KEY_UPDATE_STORM":
        def ku(s):
            s.peer.key_update()
            return [(s.peer.packet("1rtt", b"\x01"), None)]
        return Script([ku] * d["count"])
    if k == "RESET_AFTER_DATA_ACKS":
        vs = 5 if peer.role == "client" else 8
        out.append((peer.packet("1rtt", build_frame(["stop_sending", vs, 1])), None))
        out.append((peer.packet("1rtt", build_frame(["ack", 2, 60, 0, 0, 60, [], None])), None))
        out.append((peer.packet("1rtt", build_frame(["max_stream_data", vs, 1 << 40])), None))
        return out
    if k == "ACK_INTERPLAY_RANDOM":
        # a key-holding peer that numbers its packets out of order (skips ahead, later uses the skipped numbers,
        # repeats numbers) and acknowledges what the victim has really sent so far (largest / everything / a slice),
        # mixed with ack-eliciting frames: exercises the victim's ack queue, ack-of-ack pruning and duplicate floor
        r = random.Random(d["seed"])
        skipped = []

        def step(s, r=r, skipped=skipped):
            p = s.peer
            nxt = p.next_pn["A"]
            c = r.random()
            if c < 0.2:
                jump = r.choice([2, 5, 10, 40])
                skipped.extend(range(nxt, nxt + jump))
                pn = nxt + jump
                p.next_pn["A"] = pn + 1
            elif c < 0.5 and skipped:
                pn = skipped.pop(r.randrange(len(skipped)))
            elif c < 0.55 and nxt > 0:
                pn = r.randrange(0, nxt)  # a number that may have been used already
            else:
                pn = nxt
                p.next_pn["A"] = pn + 1
            largest_sent = s.drv.conn._packet_number - 1  # what a real peer learns by reading the victim's packets
            body = b""
            if largest_sent >= 0 and r.random() < 0.75:
                mode = r.choice(["all", "largest", "slice", "two-ranges"])
                if mode == "all":
                    body += build_frame(["ack", 2, largest_sent, r.choice([0, 100]), 0, largest_sent, [], None])
                elif mode == "largest":
                    body += build_frame(["ack", 2, largest_sent, 0, 0, 0, [], None])
                elif mode == "slice":
                    hi = r.randrange(0, largest_sent + 1)
                    body += build_frame(["ack", 2, hi, 0, 0, r.randrange(0, hi + 1), [], None])
                elif largest_sent >= 4:
                    body += build_frame(["ack", 2, largest_sent, 0, 1, 0, [[0, r.randrange(0, largest_sent - 2)]], None])
            if r.random() < 0.7 or not body:
                body += r.choice([b"\x01", build_frame(["max_data", 1 << 21]), b"\x01\x01"])
            return [(p.packet("1rtt", body, pn=pn, pn_len=4), None)]

        return Script([step] * d["steps"])
    if k == "ACK_EVERYTHING_THEN_GARBAGE_ACKS":
        out.append((peer.packet("1rtt", build_frame(["ack", 2, 200, 0, 0, 200, [], None])), None))
        out.append((peer.packet("1rtt", build_frame(["ack", 2, VMAX, 0, 0, VMAX, [], None])), None))
        out.append((peer.packet("1rtt", build_frame(["ack", 2, 0, 0, 0, 0, [], None])), None))
        return out
    # ---- client first flight
    vcid = _victim_cid(st)
    odcid = st.info.get("odcid")
    ver = st.info.get("client_version") or peer.version
    if k in ("RETRY_THEN_BAD_INITIAL", "RETRY_THEN_GENUINE_SH", "RETRY_TWICE"):
        new_scid = bytes(range(0x30, 0x38))
        first = 0xC0 | (TYPE_CODE[ver]["retry"] << 4)
        wo = long_header(first, ver, vcid, new_scid, b"K" * d.get("token", 16))
        retry = wo + rc.retry_tag(ver, odcid, wo)

        def after_retry(s):
            # the client now derives Initial keys from the Retry SCID
            _c, srv = rc.initial_keys(ver, new_scid)
            p = s.peer
            p.keys["initial"] = srv
            p.scid = new_scid
            if k == "RETRY_THEN_BAD_INITIAL":
                return [(p.packet("initial", build_frame(["type", 0x3F, 1, "00"])), None)]
            if k == "RETRY_TWICE":
                wo2 = long_header(first, ver, vcid, bytes(8), b"Z" * 8)
                return [(wo2 + rc.retry_tag(ver, new_scid, wo2), None)]
            return [(pkt, None) for pkt in p.crypto_packets("initial", s.info["sh"])]
        return Script([lambda s: [(retry, None)], after_retry])
    if k == "VN_V2_THEN_JUNK":
        vn = long_header(0x80, 0, vcid, odcid, (V2 if ver == V1 else V1).to_bytes(4, "big"))
        return Script([lambda s: [(vn, None)], lambda s: [(vn, None)], lambda s: [(bytes([0xC0]) + bytes(40), None)]])
    if k == "VN_UNKNOWN_ONLY":
        return [(long_header(0x80, 0, vcid, odcid, b"\xfa\xce\xb0\x0c"), None)]
    # ---- fresh server
    g = (st.info.get("pending") or [b""])[0]
    if k == "GARBAGE_THEN_GENUINE":
        return [(b"\x00" * 30, None), (g, None)]
    if k == "SMALL_INITIAL_THEN_GENUINE":
        return [(g[:600], None), (g, None)]
    if k == "UNDECRYPTABLE_INITIAL_THEN_GENUINE":
        b = bytearray(g)
        b[-1] ^= 1
        return [(bytes(b), None), (g, None)]
    if k == "INITIAL_OTHER_VERSION_THEN_GENUINE":
        other = V2 if peer.version == V1 else V1
        c, _s = rc.initial_keys(other, odcid)
        return [(peer.packet("initial", F.f_crypto(0, st.info["ch"][:50]), version=other, keys=c, pad_to=1200), None), (g, None)]
    if k == "INITIAL_NO_CRYPTO":
        return [(peer.packet("initial", b"\x01", pad_to=1200), None)]
    if k == "INITIAL_ACK_ONLY":
        return [(peer.packet("initial", build_frame(["ack", 2, 0, 0, 0, 0, [], None]), pad_to=1200), None)]
    if k == "INITIAL_CLOSE_FIRST":
        return [(peer.packet("initial", build_frame(["close", 0, 0, 0, 0, ""]), pad_to=1200), None)]
    raise ValueError(k)


SPACE_OF = {"initial": "I", "handshake": "H", "0rtt": "A", "1rtt": "A"}


def _switch_cid(s):
    """address the victim with another connection id it has issued (harness reads the ids the
    victim currently holds; a real peer learns them from NEW_CONNECTION_ID frames)."""
    live = [bytes(c.cid) for c in s.drv.conn._host_cids]
    others = [c for c in live if c != s.peer.dcid]
    if others:
        s.peer.dcid = others[0]
    return [(s.peer.packet("1rtt", b"\x01"), None)]


ENUM = {"raw": enumerate_raw, "mut": enumerate_mut, "frames": enumerate_frames, "tls": enumerate_tls, "hist": enumerate_hist}
MAT = {"raw": mat_raw, "mut": mat_mut, "frames": mat_frames, "tls": mat_tls, "hist": mat_hist}


def enumerate_family(fam, st, rng, n, part=0, parts=1):
    return ENUM[fam](st, rng, n, part, parts)


def materialize(st, d):
    """-> Script or list[(bytes, addr)]"""
    return MAT[d["fam"]](st, d)
