"""C05 generators: descriptors (small JSON-able dicts) and their materialisation into datagrams.

enumerate_*(state, rng, n) -> list of descriptors          (needs the prepared state for CIDs etc.)
materialize(st, desc)      -> list of (datagram bytes, source address or None)

A descriptor has "fam" (raw / mut / frames / tls / hist), "kind" (the frame / message / grammar
class used for the evidence histogram) and whatever the materialiser needs.  Descriptors never
contain key material; protected packets are built at materialisation time with the state's keys.
"""

from __future__ import annotations

import random

from . import c05_tls as T
from . import frames as F
from . import refcrypto as rc
from .c05_lib import TYPE_CODE, V1, V2
from .simnet import CLIENT_ADDR2

B = [0, 1, 63, 64, 16383, 16384, (1 << 30) - 1, 1 << 30, (1 << 62) - 1]
VMAX = (1 << 62) - 1


def ev(v, size=None):
    return F.enc_varint(v, size)


# ----------------------------------------------------------------------------- frame specs
# A frame spec is a list: [name, args...] -> bytes.  Everything numeric so that it is JSON-able.


def build_frame(spec):
    n = spec[0]
    a = spec[1:]
    if n == "raw":
        return bytes.fromhex(a[0])
    if n == "padding":
        return bytes(a[0])
    if n == "ping":
        return b"\x01"
    if n == "ack":  # type(2|3), largest, delay, count_field, first, [[gap,len]..], ecn or None
        t, largest, delay, count, first, ranges, ecn = a
        out = ev(t) + ev(largest) + ev(delay) + ev(count) + ev(first)
        for g, l in ranges:
            out += ev(g) + ev(l)
        if ecn is not None:
            out += b"".join(ev(x) for x in ecn)
        return out
    if n == "reset_stream":
        return b"\x04" + ev(a[0]) + ev(a[1]) + ev(a[2])
    if n == "stop_sending":
        return b"\x05" + ev(a[0]) + ev(a[1])
    if n == "crypto":  # offset, declared len, actual data len
        return b"\x06" + ev(a[0]) + ev(a[1]) + bytes(a[2])
    if n == "new_token":  # declared len, actual
        return b"\x07" + ev(a[0]) + b"t" * a[1]
    if n == "stream":  # type bits(0..7), sid, off, declared len, actual len
        t = 0x08 | a[0]
        out = bytes([t]) + ev(a[1])
        if t & 4:
            out += ev(a[2])
        if t & 2:
            out += ev(a[3])
        return out + b"d" * a[4]
    if n == "max_data":
        return b"\x10" + ev(a[0])
    if n == "max_stream_data":
        return b"\x11" + ev(a[0]) + ev(a[1])
    if n == "max_streams":  # uni, v
        return (b"\x13" if a[0] else b"\x12") + ev(a[1])
    if n == "data_blocked":
        return b"\x14" + ev(a[0])
    if n == "stream_data_blocked":
        return b"\x15" + ev(a[0]) + ev(a[1])
    if n == "streams_blocked":
        return (b"\x17" if a[0] else b"\x16") + ev(a[1])
    if n == "new_cid":  # seq, rpt, declared cid len, actual cid len, token len, cid fill byte
        fill = a[5] if len(a) > 5 else 0xC1
        return b"\x18" + ev(a[0]) + ev(a[1]) + bytes([a[2] & 0xFF]) + bytes([fill]) * a[3] + bytes([0x5A]) * a[4]
    if n == "retire_cid":
        return b"\x19" + ev(a[0])
    if n == "path_challenge":
        return b"\x1a" + bytes([a[0]]) * a[1]
    if n == "path_response":
        return b"\x1b" + bytes([a[0]]) * a[1]
    if n == "close":  # app, code, frame_type, declared reason len, reason hex
        r = bytes.fromhex(a[4])
        if a[0]:
            return b"\x1d" + ev(a[1]) + ev(a[3]) + r
        return b"\x1c" + ev(a[1]) + ev(a[2]) + ev(a[3]) + r
    if n == "handshake_done":
        return b"\x1e"
    if n == "datagram":  # with_len, declared, actual
        if a[0]:
            return b"\x31" + ev(a[1]) + b"g" * a[2]
        return b"\x30" + b"g" * a[2]
    if n == "type":  # frame type value, varint size, trailing hex
        return ev(a[0], a[1]) + bytes.fromhex(a[2])
    raise ValueError(n)


def stream_ids(role):
    """stream ids of every class seen from a victim of `role`: existing, peer-initiated new,
    locally-unopened, beyond the stream-count limit, huge."""
    ids = list(range(0, 16))
    ids += [4 * 127 + c for c in range(4)] + [4 * 128 + c for c in range(4)] + [4 * 1000 + c for c in range(4)]
    ids += [VMAX - c for c in range(4)] + [(1 << 30) + c for c in range(4)]
    return ids


def frame_catalogue(role, rng):
    """[(kind label, [frame spec, ...])] — one packet payload each."""
    out = []
    sids = stream_ids(role)

    def add(kind, *specs):
        out.append((kind, list(specs)))

    add("PADDING", ["padding", 1])
    add("PADDING", ["padding", 1100])
    add("PING", ["ping"])
    # ACK
    for t in (2, 3):
        ecn = [1, 2, 3] if t == 3 else None
        k = "ACK" if t == 2 else "ACK_ECN"
        for largest in B:
            add(k, ["ack", t, largest, 0, 0, 0, [], ecn])
            add(k, ["ack", t, largest, 0, 0, largest, [], ecn])  # first range = whole
            add(k, ["ack", t, largest, 0, 0, min(largest + 1, VMAX), [], ecn])  # first > largest (underflow)
        for delay in B:
            add(k, ["ack", t, 5, delay, 0, 0, [], ecn])
        add(k, ["ack", t, 100, 0, 1, 0, [[200, 0]], ecn])  # gap underflow
        add(k, ["ack", t, 100, 0, 1, 10, [[0, 200]], ecn])  # range len underflow
        add(k, ["ack", t, 100, 0, 2, 10, [[0, 1]], ecn])  # count > ranges present
        add(k, ["ack", t, 100, 0, VMAX, 0, [], ecn])  # huge count, nothing follows
        add(k, ["ack", t, 1000, 0, 300, 0, [[0, 0]] * 300, ecn])  # many ranges
        add(k, ["ack", t, VMAX, 0, 1, VMAX // 2, [[0, VMAX // 4]], ecn])
        add(k, ["ack", t, 50, 0, 0, 50, [], ecn])  # everything the victim may have sent
        add(k, ["ack", t, 50, 1 << 40, 0, 50, [], ecn])
        add(k, ["ack", t, 3, 0, 1, 0, [[0, 0]], ecn])
        if t == 3:
            add(k, ["ack", t, 5, 0, 0, 0, [], [VMAX, VMAX, VMAX]])
            add(k, ["ack", t, 5, 0, 0, 0, [], [1]])  # truncated ECN counts
    # RESET_STREAM / STOP_SENDING / MAX_STREAM_DATA / STREAM_DATA_BLOCKED over stream-id classes
    for sid in sids:
        add("RESET_STREAM", ["reset_stream", sid, 7, 0])
        add("STOP_SENDING", ["stop_sending", sid, 7])
        add("MAX_STREAM_DATA", ["max_stream_data", sid, 100000])
        add("STREAM_DATA_BLOCKED", ["stream_data_blocked", sid, 10])
        add("STREAM", ["stream", 2, sid, 0, 3, 3])
        add("STREAM", ["stream", 7, sid, 5, 3, 3])
    for v in B:
        add("RESET_STREAM", ["reset_stream", 0, v, 10])
        add("RESET_STREAM", ["reset_stream", 1, 0, v])
        add("RESET_STREAM", ["reset_stream", 3 if role == "client" else 2, 0, v])
        add("RESET_STREAM", ["reset_stream", v, 0, 0])
        add("STOP_SENDING", ["stop_sending", 0, v])
        add("STOP_SENDING", ["stop_sending", v, 0])
        add("MAX_DATA", ["max_data", v])
        add("MAX_STREAM_DATA", ["max_stream_data", 0, v])
        add("MAX_STREAM_DATA", ["max_stream_data", v, 5])
        add("MAX_STREAMS_BIDI", ["max_streams", 0, v])
        add("MAX_STREAMS_UNI", ["max_streams", 1, v])
        add("DATA_BLOCKED", ["data_blocked", v])
        add("STREAM_DATA_BLOCKED", ["stream_data_blocked", 0, v])
        add("STREAM_DATA_BLOCKED", ["stream_data_blocked", v, v])
        add("STREAMS_BLOCKED_BIDI", ["streams_blocked", 0, v])
        add("STREAMS_BLOCKED_UNI", ["streams_blocked", 1, v])
        add("RETIRE_CONNECTION_ID", ["retire_cid", v])
        add("NEW_CONNECTION_ID", ["new_cid", v, 0, 8, 8, 16])
        add("NEW_CONNECTION_ID", ["new_cid", v, v, 8, 8, 16])
        add("NEW_CONNECTION_ID", ["new_cid", 9, v, 8, 8, 16])
        add("CRYPTO", ["crypto", v, 4, 4])
        add("CRYPTO", ["crypto", 0, v, 4])
        add("NEW_TOKEN", ["new_token", v, min(v, 900)])
        add("CONNECTION_CLOSE", ["close", 0, v, 0, 0, ""])
        add("CONNECTION_CLOSE", ["close", 0, 0, v, 0, ""])
        add("CONNECTION_CLOSE", ["close", 0, 0, 0, v, ""])
        add("CONNECTION_CLOSE_APP", ["close", 1, v, 0, 0, ""])
        add("DATAGRAM_LEN", ["datagram", 1, v, min(v, 900)])
        peer_sid = 0 if role == "server" else 1
        for bits in (2, 6, 7):
            add("STREAM", ["stream", bits, peer_sid, v, 3, 3])
            add("STREAM", ["stream", bits, peer_sid, 0, v, min(v, 900)])
            add("STREAM", ["stream", bits, v, 0, 1, 1])
    for bits in range(8):
        add("STREAM", ["stream", bits, 0 if role == "server" else 1, 0, 10, 10])
        add("STREAM", ["stream", bits, 0 if role == "server" else 1, 0, 0, 0])
        add("STREAM", ["stream", bits, 0 if role == "server" else 1, VMAX - 5, 10, 10])
    ps = 0 if role == "server" else 1
    add("STREAM", ["stream", 3, ps, 0, 5, 5], ["stream", 7, ps, 2, 5, 5])  # data beyond FIN
    add("STREAM", ["stream", 3, ps, 0, 5, 5], ["stream", 3, ps, 0, 3, 3])  # change final size
    add("STREAM", ["stream", 3, ps, 0, 5, 5], ["reset_stream", ps, 0, 9])
    add("STREAM", ["reset_stream", ps, 0, 9], ["stream", 2, ps, 0, 20, 20])
    add("STREAM", ["stream", 6, ps, 1000000, 100, 100])  # near limit
    add("STREAM", ["stream", 6, ps, 1048576 - 10, 10, 10], ["stream", 6, ps, 1048576, 1, 1])
    add("STREAM", ["stop_sending", ps, 1], ["stream", 2, ps, 0, 4, 4], ["max_stream_data", ps, 5])
    # CID management
    for ln in (0, 1, 7, 8, 20, 21, 255):
        add("NEW_CONNECTION_ID", ["new_cid", 9, 0, ln, ln, 16])
    add("NEW_CONNECTION_ID", ["new_cid", 9, 0, 8, 8, 15])
    add("NEW_CONNECTION_ID", ["new_cid", 9, 0, 20, 8, 16])
    add("NEW_CONNECTION_ID", ["new_cid", 2, 3, 8, 8, 16])  # rpt > seq
    add("NEW_CONNECTION_ID", *[["new_cid", i, 0, 8, 8, 16, i] for i in range(2, 12)])  # over the limit
    add("NEW_CONNECTION_ID", *[["new_cid", i, i, 8, 8, 16, i] for i in range(2, 60)])  # retire storm
    add("NEW_CONNECTION_ID", ["new_cid", 5, 0, 8, 8, 16, 5], ["new_cid", 5, 0, 8, 8, 16, 6])  # same seq, different cid
    add("NEW_CONNECTION_ID", ["new_cid", 5, 0, 8, 8, 16, 5], ["new_cid", 5, 5, 8, 8, 16, 5])
    add("NEW_CONNECTION_ID", ["new_cid", 3, 0, 8, 8, 16, 3], ["new_cid", 2, 0, 8, 8, 16, 2], ["new_cid", 2, 2, 8, 8, 16, 2], ["new_cid", 3, 3, 8, 8, 16, 3])
    for s in range(0, 10):
        add("RETIRE_CONNECTION_ID", ["retire_cid", s])
    add("RETIRE_CONNECTION_ID", *[["retire_cid", s] for s in range(1, 8)])
    add("RETIRE_CONNECTION_ID", ["retire_cid", 1], ["retire_cid", 1])
    # path
    for ln in (0, 1, 7, 8):
        add("PATH_CHALLENGE", ["path_challenge", 0xAB, ln])
        add("PATH_RESPONSE", ["path_response", 0xAB, ln])
    add("PATH_CHALLENGE", *[["path_challenge", i, 8] for i in range(100)])
    add("PATH_RESPONSE", ["path_response", 0, 8], ["path_response", 1, 8])
    # close
    for reason in ("", "6f6b", "fffe80", "c328", "00", "e29c" , "41" * 1000):
        add("CONNECTION_CLOSE", ["close", 0, 0x0A, 6, len(bytes.fromhex(reason)), reason])
        add("CONNECTION_CLOSE_APP", ["close", 1, 0x0A, 0, len(bytes.fromhex(reason)), reason])
    add("CONNECTION_CLOSE", ["close", 0, 1, 0, 50, "6f6b"])  # reason length lies
    add("HANDSHAKE_DONE", ["handshake_done"])
    add("HANDSHAKE_DONE", ["handshake_done"], ["handshake_done"])
    add("NEW_TOKEN", ["new_token", 0, 0])
    add("NEW_TOKEN", ["new_token", 16, 16])
    for n in (0, 1, 100, 1000):
        add("DATAGRAM", ["datagram", 0, 0, n])
        add("DATAGRAM_LEN", ["datagram", 1, n, n])
    add("DATAGRAM_LEN", ["datagram", 1, 100, 10])
    # CRYPTO oddities (no TLS content: bytes are zeros -> TLS sees message type 0)
    add("CRYPTO", ["crypto", 0, 0, 0])
    add("CRYPTO", ["crypto", 600000, 1, 1])  # > MAX_PENDING_CRYPTO gap
    add("CRYPTO", ["crypto", 524288, 1, 1])
    add("CRYPTO", ["crypto", 524287, 1, 1])
    add("CRYPTO", ["crypto", VMAX, 1, 1])
    add("CRYPTO", ["crypto", 100, 1000, 1000], ["crypto", 50, 1000, 1000], ["crypto", 3000, 100, 100])
    add("CRYPTO", ["crypto", 4, 4, 4])
    add("CRYPTO", ["crypto", 0, 4, 4])
    # unknown / reserved frame types in every varint encoding
    for t in (0x1F, 0x20, 0x2F, 0x32, 0x3F, 0x40, 0xAF, 0x3FFF, 0x4000, 0x15228C00, (1 << 30), VMAX):
        for size in (1, 2, 4, 8):
            if t < (1 << (8 * size - 2)):
                add("UNKNOWN_TYPE_%d" % size, ["type", t, size, "00"])
    # known types in non-minimal encodings, and a frame type cut in the middle of its varint
    for t in (0x01, 0x02, 0x06, 0x08, 0x1C, 0x1E):
        for size in (2, 4, 8):
            add("NONMINIMAL_TYPE_%d" % size, ["type", t, size, "0000000000"])
    add("TYPE_TRUNCATED", ["ping"], ["raw", "40"])
    add("TYPE_TRUNCATED", ["ping"], ["raw", "80"])
    add("TYPE_TRUNCATED", ["ping"], ["raw", "c0"])
    add("TYPE_TRUNCATED", ["ping"], ["raw", "800000"])
    add("TYPE_TRUNCATED", ["ping"], ["raw", "c0000000000000"])
    add("TYPE_TRUNCATED", ["raw", "40"])
    return out


def truncation_specs(role):
    """one well-formed example per frame type, to be cut at every byte"""
    ps = 0 if role == "server" else 1
    return [
        ("ACK", ["ack", 2, 1000, 20000, 2, 70, [[70, 70], [16384, 5]], None]),
        ("ACK_ECN", ["ack", 3, 1000, 20000, 1, 70, [[70, 70]], [100, 20000, 3]]),
        ("RESET_STREAM", ["reset_stream", ps + 4 * 70, 20000, 70]),
        ("STOP_SENDING", ["stop_sending", ps + 4 * 70, 20000]),
        ("CRYPTO", ["crypto", 20000, 70, 70]),
        ("NEW_TOKEN", ["new_token", 70, 70]),
        ("STREAM", ["stream", 7, ps + 4 * 70, 20000, 70, 70]),
        ("STREAM", ["stream", 5, ps + 4 * 70, 20000, 0, 5]),
        ("MAX_DATA", ["max_data", 1 << 31]),
        ("MAX_STREAM_DATA", ["max_stream_data", ps + 4 * 70, 1 << 31]),
        ("MAX_STREAMS_BIDI", ["max_streams", 0, 20000]),
        ("MAX_STREAMS_UNI", ["max_streams", 1, 20000]),
        ("DATA_BLOCKED", ["data_blocked", 20000]),
        ("STREAM_DATA_BLOCKED", ["stream_data_blocked", ps + 4 * 70, 20000]),
        ("STREAMS_BLOCKED_BIDI", ["streams_blocked", 0, 20000]),
        ("STREAMS_BLOCKED_UNI", ["streams_blocked", 1, 20000]),
        ("NEW_CONNECTION_ID", ["new_cid", 70, 64, 8, 8, 16]),
        ("RETIRE_CONNECTION_ID", ["retire_cid", 20000]),
        ("PATH_CHALLENGE", ["path_challenge", 1, 8]),
        ("PATH_RESPONSE", ["path_response", 1, 8]),
        ("CONNECTION_CLOSE", ["close", 0, 20000, 70, 4, "6f6b6179"]),
        ("CONNECTION_CLOSE_APP", ["close", 1, 20000, 0, 4, "6f6b6179"]),
        ("DATAGRAM_LEN", ["datagram", 1, 70, 70]),
        ("NONMINIMAL_TYPE_4", ["type", 0x08, 4, "00"]),
    ]


REPEATABLE = [
    ("PING", ["ping"]), ("ACK", ["ack", 2, 3, 0, 0, 0, [], None]), ("MAX_DATA", ["max_data", 5]), ("PATH_CHALLENGE", ["path_challenge", 7, 8]),
    ("STREAM", ["stream", 2, 0, 0, 1, 1]), ("STREAM", ["stream", 6, 1, 7, 1, 1]), ("RESET_STREAM", ["reset_stream", 0, 0, 0]),
    ("STOP_SENDING", ["stop_sending", 0, 0]), ("NEW_CONNECTION_ID", ["new_cid", 1, 0, 8, 8, 16]), ("RETIRE_CONNECTION_ID", ["retire_cid", 1]),
    ("HANDSHAKE_DONE", ["handshake_done"]), ("NEW_TOKEN", ["new_token", 1, 1]), ("DATAGRAM_LEN", ["datagram", 1, 1, 1]),
    ("CRYPTO", ["crypto", 0, 0, 0]), ("MAX_STREAMS_BIDI", ["max_streams", 0, 500]), ("STREAMS_BLOCKED_BIDI", ["streams_blocked", 0, 1]),
    ("CONNECTION_CLOSE", ["close", 0, 0, 0, 0, ""]), ("DATA_BLOCKED", ["data_blocked", 1]), ("MAX_STREAM_DATA", ["max_stream_data", 0, 9]),
]


def ptypes_for(st):
    return [p for p in ("initial", "handshake", "0rtt", "1rtt") if st.peer.has(p)]


def enumerate_frames(st, rng, n, part=0, parts=1):
    """descriptors for family 3 (single packets)."""
    cat = frame_catalogue(st.role, rng)
    pts = ptypes_for(st)
    descs = []
    for i, (kind, specs) in enumerate(cat):
        for pt in pts:
            descs.append({"fam": "frames", "kind": kind, "pt": pt, "fr": specs})
    for kind, spec in truncation_specs(st.role):
        full = build_frame(spec)
        for cut in range(1, len(full)):
            for pt in pts:
                descs.append({"fam": "frames", "kind": kind, "var": "trunc", "pt": pt, "fr": [spec], "cut": cut})
    for kind, spec in REPEATABLE:
        for rep in (2, 10, 100, 1000, 2000):
            for pt in pts:
                descs.append({"fam": "frames", "kind": kind, "var": "rep", "pt": pt, "fr": [spec], "rep": rep})
    # header-level variations of a valid packet
    for pt in pts:
        for rb in (1, 2, 3):
            descs.append({"fam": "frames", "kind": "HDR_RESERVED_BITS", "pt": pt, "fr": [["ping"]], "rb": rb})
        descs.append({"fam": "frames", "kind": "HDR_NO_FIXED_BIT", "pt": pt, "fr": [["ping"]], "nofixed": 1})
        descs.append({"fam": "frames", "kind": "EMPTY_PAYLOAD", "pt": pt, "fr": [], "empty": 1})
        descs.append({"fam": "frames", "kind": "PADDING_ONLY", "pt": pt, "fr": [["padding", 30]]})
        for pnl in (1, 2, 3, 4):
            descs.append({"fam": "frames", "kind": "HDR_PN_LEN", "pt": pt, "fr": [["ping"]], "pnl": pnl})
        for pn in (0, 1, (1 << 16), (1 << 32) - 1, (1 << 32), VMAX - 1, VMAX):
            descs.append({"fam": "frames", "kind": "HDR_PN_VALUE", "pt": pt, "fr": [["ping"]], "pn": pn, "pnl": 4})
        descs.append({"fam": "frames", "kind": "HDR_DUP_PN", "pt": pt, "fr": [["ping"]], "dup": 1})
        if pt == "1rtt":
            descs.append({"fam": "frames", "kind": "HDR_WRONG_KEY_PHASE", "pt": pt, "fr": [["ping"]], "kp": "flip_only"})
            descs.append({"fam": "frames", "kind": "HDR_KEY_UPDATE", "pt": pt, "fr": [["ping"]], "kp": "update"})
            descs.append({"fam": "frames", "kind": "HDR_KEY_UPDATE_TWICE", "pt": pt, "fr": [["ping"]], "kp": "update2"})
            descs.append({"fam": "frames", "kind": "HDR_KEY_UPDATE_THEN_OLD", "pt": pt, "fr": [["ping"]], "kp": "update_old"})
            descs.append({"fam": "frames", "kind": "HDR_OTHER_ADDR", "pt": pt, "fr": [["ping"]], "addr2": 1})
            descs.append({"fam": "frames", "kind": "HDR_OTHER_ADDR", "pt": pt, "fr": [["path_challenge", 1, 8]], "addr2": 1})
            descs.append({"fam": "frames", "kind": "HDR_OTHER_CID", "pt": pt, "fr": [["ping"]], "cid": "issued"})
            descs.append({"fam": "frames", "kind": "HDR_OTHER_CID", "pt": pt, "fr": [["ping"]], "cid": "random"})
        else:
            for vv in ("v1", "v2"):
                descs.append({"fam": "frames", "kind": "HDR_OTHER_VERSION", "pt": pt, "fr": [["ping"]], "ver": vv})
            descs.append({"fam": "frames", "kind": "HDR_SCID_CHANGE", "pt": pt, "fr": [["ping"]], "scid": "aabbccdd"})
            descs.append({"fam": "frames", "kind": "HDR_SCID_EMPTY", "pt": pt, "fr": [["ping"]], "scid": ""})
            if pt == "initial":
                for tl in (1, 100, 1000):
                    descs.append({"fam": "frames", "kind": "HDR_TOKEN", "pt": pt, "fr": [["ping"]], "token": tl})
    descs = [d for i, d in enumerate(descs) if i % parts == part]
    if n is not None and len(descs) > n:
        descs = rng.sample(descs, n)
    return descs


def mat_frames(st, d):
    peer = st.peer
    pt = d["pt"]
    payload = b"".join(build_frame(s) for s in d["fr"])
    if "cut" in d:
        payload = payload[: d["cut"]]
    if "rep" in d:
        payload = payload * d["rep"]
    kw = {}
    if d.get("rb"):
        kw["reserved_bits"] = d["rb"]
    if d.get("nofixed"):
        kw["fixed_bit"] = False
    if "pnl" in d:
        kw["pn_len"] = d["pnl"]
    if "pn" in d:
        kw["pn"] = d["pn"]
    if "ver" in d:
        kw["version"] = {"v1": V1, "v2": V2}[d["ver"]]
        if pt == "initial":
            c, s = rc.initial_keys(kw["version"], peer.odcid)
            kw["keys"] = c if peer.role == "client" else s
    if "scid" in d:
        kw["scid"] = bytes.fromhex(d["scid"])
    if "token" in d:
        kw["token"] = b"T" * d["token"]
    addr = CLIENT_ADDR2 if d.get("addr2") else None
    if d.get("cid") == "issued":
        cids = st.info.get("victim_cids") or []
        live = [bytes(c.cid) for c in st.drv.conn._host_cids]
        others = [c for c in live if c != peer.dcid]
        kw["dcid"] = others[-1] if others else (cids[0] if cids else peer.dcid)
    elif d.get("cid") == "random":
        kw["dcid"] = bytes([0xD0 + i for i in range(len(peer.dcid))])
    need_pad = pt == "initial" and peer.role == "client"
    if need_pad:
        kw["pad_to"] = 1200
    out = []
    kp = d.get("kp")
    if kp == "flip_only":
        kw["key_phase"] = peer.key_phase ^ 1
    elif kp in ("update", "update2", "update_old"):
        old = peer.clone()
        peer.key_update()
        if kp == "update2":
            out.append((peer.packet(pt, b"\x01"), None))
            peer.key_update()
        if kp == "update_old":
            out.append((peer.packet(pt, b"\x01"), None))
            out.append((old.packet(pt, payload, pn=peer.next_pn["A"] + 5), None))
            return out
    if d.get("empty"):
        # a protected packet whose plaintext payload is empty cannot be sampled for header
        # protection with a short pn; use pn_len 4 so that 4+0+16 >= 20 bytes follow
        kw["pn_len"] = 4
        pkt = _packet_exact(peer, pt, b"", **kw)
    else:
        pkt = peer.packet(pt, payload, **kw)
    out.append((pkt, addr))
    if d.get("dup"):
        out.append((pkt, addr))
    return out


def _packet_exact(peer, ptype, payload, **kw):
    """like Peer.packet but without the minimum-payload padding (payload may be empty)."""
    kw.pop("pad_to", None)
    pn_len = kw.get("pn_len", 2)
    space = {"initial": "I", "handshake": "H", "0rtt": "A", "1rtt": "A"}[ptype]
    pn = kw.get("pn")
    if pn is None:
        pn = peer.next_pn[space]
        peer.next_pn[space] = pn + 1
    keys = kw.get("keys") or peer.keys[ptype]
    dcid = kw.get("dcid", peer.dcid)
    version = kw.get("version", peer.version)
    if ptype == "1rtt":
        first = 0x40 | (peer.key_phase << 2) | (pn_len - 1)
        hdr = bytes([first]) + dcid
    else:
        scid = kw.get("scid", peer.scid)
        first = 0xC0 | (TYPE_CODE[version][ptype] << 4) | (pn_len - 1)
        hdr = bytes([first]) + version.to_bytes(4, "big") + bytes([len(dcid)]) + dcid + bytes([len(scid)]) + scid
        if ptype == "initial":
            hdr += b"\x00"
        hdr += F.enc_varint(pn_len + len(payload) + 16, 2)
    return rc.protect(keys, hdr, pn, pn_len, payload)
