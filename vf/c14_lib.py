"""C14 helpers: recording stub transport, harness-side QPACK/frame writers, per-stream
normal form of HTTP/3 events, delivery engine (splitting x interleaving), difference
classifier.  Nothing here imports aioquic at module import time (plan() runs in the parent).
"""

from __future__ import annotations

import itertools

from .frames import enc_varint

# ------------------------------------------------------------------ small codecs (harness side)


def rd_varint(b: bytes, p: int):
    """(value, new position) or None when the varint at p is incomplete."""
    if p >= len(b):
        return None
    n = 1 << (b[p] >> 6)
    if p + n > len(b):
        return None
    v = b[p] & 0x3F
    for i in range(1, n):
        v = (v << 8) | b[p + i]
    return v, p + n


def qint(nbits: int, v: int, flags: int = 0) -> bytes:
    """RFC 7541 5.1 prefixed integer."""
    mx = (1 << nbits) - 1
    if v < mx:
        return bytes([flags | v])
    out = [flags | mx]
    v -= mx
    while v >= 128:
        out.append((v & 127) | 128)
        v >>= 7
    out.append(v)
    return bytes(out)


def qstr(b: bytes) -> bytes:
    return qint(7, len(b)) + b  # H=0 (no Huffman)


# the part of the RFC 9204 static table the harness uses (self-checked against pylsqpack in the child)
STATIC = {
    0: (b":authority", b""),
    1: (b":path", b"/"),
    4: (b"content-length", b"0"),
    5: (b"cookie", b""),
    15: (b":method", b"CONNECT"),
    17: (b":method", b"GET"),
    20: (b":method", b"POST"),
    23: (b":scheme", b"https"),
    25: (b":status", b"200"),
    27: (b":status", b"404"),
    29: (b"accept", b"*/*"),
    53: (b"content-type", b"text/plain"),
    95: (b"user-agent", b""),
}


class MiniQpack:
    """Harness-side QPACK writer: static / literal / dynamic field lines without Huffman, plus
    the matching encoder-stream instructions.  Never evicts (callers stay below capacity)."""

    def __init__(self, capacity=4096, announce=True):
        self.cap = capacity
        self.entries = []  # absolute index -> (name, value)
        self.size = 0
        self.enc = bytearray()
        if announce:
            self.enc += qint(5, capacity, 0x20)

    def room(self, name, value):
        return self.size + len(name) + len(value) + 32 <= self.cap and len(self.entries) < 100

    def insert(self, name: bytes, value: bytes, static_name=None, dyn_name=None) -> int:
        assert self.room(name, value)
        if static_name is not None:
            assert STATIC[static_name][0] == name
            self.enc += qint(6, static_name, 0xC0) + qstr(value)
        elif dyn_name is not None:
            assert self.entries[dyn_name][0] == name
            self.enc += qint(6, len(self.entries) - 1 - dyn_name, 0x80) + qstr(value)
        else:
            self.enc += qint(5, len(name), 0x40) + name + qstr(value)
        self.entries.append((name, value))
        self.size += len(name) + len(value) + 32
        return len(self.entries) - 1

    def take_enc(self) -> bytes:
        out = bytes(self.enc)
        self.enc = bytearray()
        return out

    def block(self, lines) -> bytes:
        """lines: ("s", idx) | ("d", abs) | ("sn", idx, value) | ("dn", abs, value) | ("l", name, value)"""
        refs = [ln[1] for ln in lines if ln[0] in ("d", "dn")]
        ric = max(refs) + 1 if refs else 0
        base = len(self.entries) if refs else 0
        max_entries = self.cap // 32
        out = bytearray()
        out += qint(8, 0 if ric == 0 else (ric % (2 * max_entries)) + 1)
        out += qint(7, base - ric, 0x00)
        for ln in lines:
            k = ln[0]
            if k == "s":
                out += qint(6, ln[1], 0xC0)
            elif k == "d":
                out += qint(6, base - 1 - ln[1], 0x80)
            elif k == "sn":
                out += qint(4, ln[1], 0x50) + qstr(ln[2])
            elif k == "dn":
                out += qint(4, base - 1 - ln[1], 0x40) + qstr(ln[2])
            else:
                out += qint(3, len(ln[1]), 0x20) + ln[1] + qstr(ln[2])
        return bytes(out)

    def headers_of(self, lines):
        out = []
        for ln in lines:
            k = ln[0]
            if k == "s":
                out.append(STATIC[ln[1]])
            elif k == "d":
                out.append(self.entries[ln[1]])
            elif k == "sn":
                out.append((STATIC[ln[1]][0], ln[2]))
            elif k == "dn":
                out.append((self.entries[ln[1]][0], ln[2]))
            else:
                out.append((ln[1], ln[2]))
        return out


def h3frame(ftype: int, payload: bytes, tsize=None, lsize=None, declared=None) -> bytes:
    return enc_varint(ftype, tsize) + enc_varint(len(payload) if declared is None else declared, lsize) + payload


T_DATA, T_HEADERS, T_SETTINGS, T_PUSH_PROMISE, T_MAX_PUSH_ID, T_WT = 0x0, 0x1, 0x4, 0x5, 0xD, 0x41
ERROR_TYPES_ON_MSG = (0x2, 0x3, 0x4, 0x7, 0xD, 0xE)  # raise FrameUnexpected on request/push streams


def tclass(t):
    if t == T_DATA:
        return "DATA"
    if t == T_HEADERS:
        return "HEADERS"
    if t == T_PUSH_PROMISE:
        return "PUSH_PROMISE"
    if t == T_WT:
        return "WT"
    if t in ERROR_TYPES_ON_MSG:
        return "reserved"
    return "unknown"


# ------------------------------------------------------------------ independent structural parse


def parse_frames(b: bytes, start: int = 0):
    """Frame layout of a request/push stream body from `start`: list of dicts
    {t, hs, ts (end of type varint), ps (payload start) or None, len, end, complete}."""
    out = []
    p = start
    n = len(b)
    while p < n:
        r = rd_varint(b, p)
        if r is None:
            out.append({"t": None, "hs": p, "ts": n, "ps": None, "len": None, "end": n, "complete": False})
            break
        t, ts = r
        r2 = rd_varint(b, ts)
        if r2 is None:
            out.append({"t": t, "hs": p, "ts": ts, "ps": None, "len": None, "end": n, "complete": False})
            break
        ln, ps = r2
        if t == T_WT:
            out.append({"t": t, "hs": p, "ts": ts, "ps": ps, "len": None, "end": n, "complete": True, "wt": True})
            break
        end = ps + ln
        out.append({"t": t, "hs": p, "ts": ts, "ps": ps, "len": ln, "end": min(end, n), "complete": end <= n})
        p = end
    return out


def stream_layout(key, b: bytes):
    """(kind, prefix_len, frames) of a stream by its id and bytes.
    kind: msg | push | control | qenc | qdec | wtuni | opaque | short"""
    if key == "dg":
        return ("dg", 0, [])
    if key % 4 in (0, 1):
        return ("msg", 0, parse_frames(b))
    r = rd_varint(b, 0)
    if r is None:
        return ("short", len(b), [])
    st, p = r
    if st == 0:
        return ("control", p, parse_frames(b, p))
    if st == 1:
        r2 = rd_varint(b, p)
        if r2 is None:
            return ("push", len(b), [])
        return ("push", r2[1], parse_frames(b, r2[1]))
    if st == 2:
        return ("qenc", p, [])
    if st == 3:
        return ("qdec", p, [])
    if st == 0x54:
        r2 = rd_varint(b, p)
        return ("wtuni", len(b) if r2 is None else r2[1], [])
    return ("opaque", p, [])


def cut_class(layout, p: int) -> str:
    kind, pre, frames = layout
    if p < pre:
        return "prefix"
    if p == pre:
        return "after-prefix"
    if kind not in ("msg", "push", "control"):
        return kind + "-body"
    for f in frames:
        if p == f["hs"]:
            return "boundary"
        if p < f["end"] or (f is frames[-1]):
            if p < f["ts"]:
                return "in-type"
            if f["ps"] is None or p < f["ps"]:
                return "in-len:" + tclass(f["t"])
            if p == f["ps"]:
                return "after-hdr:" + tclass(f["t"])
            return "in-payload:" + tclass(f["t"])
    return "boundary"


def fin_class(layout, n: int) -> str:
    """Where the end of the stream falls relative to the frame structure."""
    kind, pre, frames = layout
    if n == 0:
        return "empty"
    if kind not in ("msg", "push"):
        return kind
    if n < pre:
        return "in-prefix"
    if not frames:
        return "no-frames"
    f = frames[-1]
    if f.get("wt"):
        return "in-WT"
    if f["ps"] is None:
        return "in-frame-header"
    if not f["complete"]:
        return "in-payload:" + ("DATA" if f["t"] == T_DATA else "non-DATA-frame")
    t = tclass(f["t"])
    if t in ("DATA", "HEADERS"):
        return "boundary,last=" + t
    if t == "reserved":
        return "boundary,last=reserved"
    return "boundary,last=frame-without-end-flag"  # PUSH_PROMISE / unknown / GREASE frame types


# ------------------------------------------------------------------ recording stub transport


class _Cfg:
    def __init__(self, is_client):
        self.is_client = is_client
        self.max_datagram_frame_size = 65536


class StubQuic:
    """The part of QuicConnection that H3Connection uses; records what is sent."""

    def __init__(self, is_client: bool):
        self.configuration = _Cfg(is_client)
        self._quic_logger = None
        self._remote_max_datagram_frame_size = 65536
        self._next_bidi = 0 if is_client else 1
        self._next_uni = 2 if is_client else 3
        self.log = []  # ("s", sid, bytes, fin) | ("d", bytes)
        self.closed = None  # (code, reason)
        self.close_calls = 0

    def get_next_available_stream_id(self, is_unidirectional=False):
        if is_unidirectional:
            v = self._next_uni
            self._next_uni += 4
        else:
            v = self._next_bidi
            self._next_bidi += 4
        return v

    def send_stream_data(self, stream_id, data, end_stream=False):
        self.log.append(("s", stream_id, bytes(data), bool(end_stream)))

    def send_datagram_frame(self, data):
        self.log.append(("d", bytes(data)))

    def close(self, error_code=0, frame_type=None, reason_phrase=""):
        self.close_calls += 1
        if self.closed is None:
            self.closed = (int(error_code), reason_phrase)

    def take(self):
        out = self.log
        self.log = []
        return out


# ------------------------------------------------------------------ cases


class Phase:
    def __init__(self):
        self.order = []  # keys in first-appearance order (int stream id or "dg")
        self.data = {}  # sid -> bytearray
        self.fin = {}  # sid -> bool
        self.dgs = []

    def add_stream(self, sid, data, fin=False):
        if sid not in self.data:
            self.data[sid] = bytearray()
            self.fin[sid] = False
            self.order.append(sid)
        assert not self.fin[sid], "write after fin on %r" % sid
        self.data[sid] += data
        self.fin[sid] = self.fin[sid] or fin

    def add_dgram(self, data):
        if "dg" not in self.order:
            self.order.append("dg")
        self.dgs.append(bytes(data))

    def add_log(self, log):
        for e in log:
            if e[0] == "s":
                self.add_stream(e[1], e[2], e[3])
            else:
                self.add_dgram(e[1])

    def keys(self):
        return [k for k in self.order if k == "dg" and self.dgs or k != "dg" and (self.data[k] or self.fin[k])]


class Case:
    def __init__(self, recv_client: bool, wt: bool = False):
        self.recv_client = recv_client
        self.wt = wt
        self.phases = [Phase()]
        self.faults = 0
        self.label = ""
        self.expected = None  # normal form the receiver should see (sender-generated cases)
        self._full = None

    def to_json(self):
        return {
            "recv_client": self.recv_client,
            "wt": self.wt,
            "faults": self.faults,
            "label": self.label,
            "phases": [
                {
                    "order": [k for k in ph.order],
                    "streams": {str(k): [bytes(ph.data[k]).hex(), ph.fin[k]] for k in ph.data},
                    "dgs": [d.hex() for d in ph.dgs],
                }
                for ph in self.phases
            ],
        }

    @staticmethod
    def from_json(j):
        c = Case(j["recv_client"], j.get("wt", False))
        c.faults = j.get("faults", 0)
        c.label = j.get("label", "")
        c.phases = []
        for pj in j["phases"]:
            ph = Phase()
            for k in pj["order"]:
                if k == "dg":
                    ph.order.append("dg")
                else:
                    d, f = pj["streams"][str(k)]
                    ph.add_stream(int(k), bytes.fromhex(d), f)
                    if int(k) not in ph.order:
                        ph.order.append(int(k))
            ph.dgs = [bytes.fromhex(d) for d in pj["dgs"]]
            c.phases.append(ph)
        return c

    def full_streams(self):
        """sid -> (all bytes over all phases, fin)"""
        if self._full is None:
            full = {}
            for ph in self.phases:
                for k in ph.data:
                    d, f = full.get(k, (b"", False))
                    full[k] = (d + bytes(ph.data[k]), f or ph.fin[k])
            self._full = full
        return self._full

    def total_bytes(self):
        return sum(len(d) for d, _ in self.full_streams().values())


# ------------------------------------------------------------------ schedules


def ref_schedule(case: Case):
    """Each stream's phase segment whole, sender (first appearance) order."""
    sched = []
    for ph in case.phases:
        steps = []
        for k in ph.keys():
            if k == "dg":
                steps.extend(["dg", 1, False] for _ in ph.dgs)
            else:
                steps.append([k, len(ph.data[k]), ph.fin[k]])
        sched.append(steps)
    return sched


def chunks_for(length: int, fin: bool, cuts, fin_alone: bool):
    """steps (n, fin) for one stream segment given sorted interior cut positions."""
    if length == 0:
        return [(0, True)] if fin else []
    pts = [0] + [c for c in cuts if 0 < c < length] + [length]
    out = []
    for a, b in zip(pts, pts[1:]):
        if b > a:
            out.append([b - a, False])
    if fin:
        if fin_alone:
            out.append([0, True])
        else:
            out[-1][1] = True
    return [tuple(x) for x in out]


def merge_sequential(per_key, order):
    steps = []
    for k in order:
        steps.extend([k, n, f] for n, f in per_key.get(k, []))
    return steps


def merge_round_robin(per_key, order):
    its = {k: list(per_key.get(k, [])) for k in order}
    steps = []
    alive = True
    i = 0
    while alive:
        alive = False
        for k in order:
            if i < len(its[k]):
                n, f = its[k][i]
                steps.append([k, n, f])
                alive = True
        i += 1
    return steps


def merge_random(per_key, order, rng, sticky=0.5):
    its = {k: list(per_key.get(k, [])) for k in order if per_key.get(k)}
    pos = {k: 0 for k in its}
    live = [k for k in order if k in its]
    steps = []
    cur = None
    while live:
        if cur not in live or rng.random() >= sticky:
            cur = live[rng.randrange(len(live))]
        n, f = its[cur][pos[cur]]
        steps.append([cur, n, f])
        pos[cur] += 1
        if pos[cur] >= len(its[cur]):
            live.remove(cur)
    return steps


def all_interleavings(a_steps, b_steps, ka, kb):
    """Every merge of two chunk lists preserving each list's order (generator of step lists)."""
    na, nb = len(a_steps), len(b_steps)
    for pos in itertools.combinations(range(na + nb), na):
        ps = set(pos)
        ia = ib = 0
        out = []
        for i in range(na + nb):
            if i in ps:
                n, f = a_steps[ia]
                ia += 1
                out.append([ka, n, f])
            else:
                n, f = b_steps[ib]
                ib += 1
                out.append([kb, n, f])
        yield out


def cuts_from_mask(mask: int, length: int):
    return [i + 1 for i in range(length - 1) if mask >> i & 1]


# ------------------------------------------------------------------ outcome / normal form


class Outcome:
    __slots__ = ("streams", "dgrams", "closed", "raised", "settings", "resumes", "blocked_sids", "events", "fin_alone_sids", "closed_by", "probe", "closed_at")

    def __init__(self):
        self.streams = {}  # sid -> {"items": [[kind, id, payload]], "ended": int, "after_end": bool}
        self.dgrams = []
        self.closed = None
        self.raised = None
        self.settings = None
        self.resumes = 0
        self.blocked_sids = set()
        self.events = 0
        self.fin_alone_sids = set()
        self.closed_by = None  # (key whose delivery triggered close(), streams blocked just before)
        self.closed_at = None  # (phase index, step index) of the step that called close()
        self.probe = None  # diagnostic re-run only: last frame-handler call of the step that closed

    def norm(self):
        return {
            "streams": {
                sid: {"items": [[k, i, p] for k, i, p in s["items"]], "ended": s["ended"], "after_end": s["after_end"]}
                for sid, s in sorted(self.streams.items())
            },
            "dgrams": list(self.dgrams),
            "closed": self.closed,
            "raised": self.raised,
            "settings": self.settings,
        }


def _st(out: Outcome, sid):
    s = out.streams.get(sid)
    if s is None:
        s = out.streams[sid] = {"items": [], "ended": 0, "after_end": False}
    return s


def absorb(out: Outcome, ev):
    """Fold one H3 event into the per-stream normal form (packaging is dropped here)."""
    name = type(ev).__name__
    out.events += 1
    if name == "DatagramReceived":
        out.dgrams.append((ev.stream_id, bytes(ev.data)))
        return
    s = _st(out, ev.stream_id)
    if s["ended"]:
        s["after_end"] = True
    if name == "HeadersReceived":
        s["items"].append(["H", ev.push_id, tuple((bytes(a), bytes(b)) for a, b in ev.headers)])
        if ev.stream_ended:
            s["ended"] += 1
    elif name == "PushPromiseReceived":
        s["items"].append(["P", ev.push_id, tuple((bytes(a), bytes(b)) for a, b in ev.headers)])
    elif name == "DataReceived":
        if ev.data:
            if s["items"] and s["items"][-1][0] == "D" and s["items"][-1][1] == ev.push_id:
                s["items"][-1][2] += bytes(ev.data)
            else:
                s["items"].append(["D", ev.push_id, bytes(ev.data)])
        if ev.stream_ended:
            s["ended"] += 1
    elif name == "WebTransportStreamDataReceived":
        if ev.data:
            if s["items"] and s["items"][-1][0] == "W" and s["items"][-1][1] == ev.session_id:
                s["items"][-1][2] += bytes(ev.data)
            else:
                s["items"].append(["W", ev.session_id, bytes(ev.data)])
        elif not s["items"]:
            s["items"].append(["W", ev.session_id, b""])  # session id is observable even without bytes
        if ev.stream_ended:
            s["ended"] += 1
    else:  # unknown event class: keep it visible
        s["items"].append(["?", name, repr(ev)])


def _norm_items(items):
    """Drop the empty-W marker when bytes follow (so that 'header | data' and 'header+data' agree)."""
    out = []
    for k, i, p in items:
        if k == "W" and out and out[-1][0] == "W" and out[-1][1] == i:
            out[-1] = ["W", i, out[-1][2] + p]
        else:
            out.append([k, i, p])
    return out


def stream_norm(s):
    return {"items": _norm_items(s["items"]), "ended": s["ended"], "after_end": s["after_end"]}


class Env:
    """aioquic names, resolved in the child."""

    def __init__(self):
        from aioquic.h3.connection import H3Connection
        from aioquic.quic.events import DatagramFrameReceived, StreamDataReceived

        self.H3Connection = H3Connection
        self.StreamDataReceived = StreamDataReceived
        self.DatagramFrameReceived = DatagramFrameReceived


def blocked_now(h3):
    return {sid for sid, s in h3._stream.items() if s.blocked}


def deliver(env: Env, case: Case, schedule, on_exc=None, probe=False, partial=False) -> Outcome:
    """Feed a fresh receiver the case's bytes according to `schedule`.  Exceptions escaping
    handle_event end the delivery and are recorded in outcome.raised (C16 owns them; here they are
    only an outcome class)."""
    from .common import exc_signature

    stub = StubQuic(case.recv_client)
    h3 = env.H3Connection(stub, enable_webtransport=case.wt)
    out = Outcome()
    SDR = env.StreamDataReceived
    DFR = env.DatagramFrameReceived
    blocked = set()
    last = {}
    delivered = {}
    if probe:
        # diagnostic only (used after a close difference was found, to name the mechanism): remember the
        # last call of the frame handler within the current step.  Instance attribute, library untouched.
        orig = getattr(h3, "_handle_request_or_push_frame", None)
        if orig is not None:

            def spy(frame_type, frame_data, stream, stream_ended):
                last["v"] = (stream.stream_id, frame_type, frame_data is None, len(stream.buffer))
                return orig(frame_type=frame_type, frame_data=frame_data, stream=stream, stream_ended=stream_ended)

            h3._handle_request_or_push_frame = spy
    for phi, (ph, steps) in enumerate(zip(case.phases, schedule)):
        pos = {}
        dgi = 0
        for sti, (k, n, f) in enumerate(steps):
            if k == "dg":
                ev = DFR(data=ph.dgs[dgi])
                dgi += 1
            else:
                p = pos.get(k, 0)
                ev = SDR(stream_id=k, data=bytes(ph.data[k][p : p + n]), end_stream=f)
                pos[k] = p + n
                delivered[k] = delivered.get(k, 0) + n
                if f and n == 0:
                    out.fin_alone_sids.add(k)
            last.pop("v", None)
            try:
                evs = h3.handle_event(ev)
            except Exception as exc:  # outcome class, not (by itself) a C14 violation
                out.raised = exc_signature(exc)
                if on_exc is not None:
                    on_exc(exc)
                break
            for e in evs:
                absorb(out, e)
            if stub.closed is not None and out.closed_by is None:
                out.closed_by = (k, sorted(blocked))
                out.closed_at = (phi, sti)
                out.probe = last["v"] + (delivered.get(last["v"][0], 0),) if "v" in last else None
            nb = blocked_now(h3)
            if nb or blocked:
                out.resumes += len(blocked - nb)
                out.blocked_sids |= nb
                blocked = nb
        if out.raised:
            break
        if partial:
            continue
        # harness self-check: the schedule must consume the phase exactly
        for k in ph.data:
            if pos.get(k, 0) != len(ph.data[k]):
                raise RuntimeError("schedule does not consume stream %r of phase (%d of %d)" % (k, pos.get(k, 0), len(ph.data[k])))
        if dgi != len(ph.dgs):
            raise RuntimeError("schedule does not deliver all datagrams")
    out.closed = stub.closed[0] if stub.closed else None
    rs = h3.received_settings
    out.settings = None if rs is None else sorted((int(a), int(b)) for a, b in rs.items())
    for sid in list(out.streams):
        out.streams[sid] = stream_norm(out.streams[sid])
    return out


def prefix_case(case: Case, schedule, upto):
    """The case made of exactly the bytes (and FINs, datagrams) that `schedule` delivers up to and including
    step `upto` = (phase index, step index): per-stream prefixes, in the original sender order."""
    phi, sti = upto
    pc = Case(case.recv_client, case.wt)
    pc.faults = case.faults
    pc.label = case.label + "|prefix"
    pc.phases = []
    for i, (ph, steps) in enumerate(zip(case.phases, schedule)):
        if i > phi:
            break
        got = {}
        fins = {}
        ndg = 0
        for j, (k, n, f) in enumerate(steps):
            if i == phi and j > sti:
                break
            if k == "dg":
                ndg += 1
            else:
                got[k] = got.get(k, 0) + n
                fins[k] = fins.get(k, False) or f
        np_ = Phase()
        for k in ph.order:
            if k == "dg":
                for d in ph.dgs[:ndg]:
                    np_.add_dgram(d)
            elif k in got:
                np_.add_stream(k, bytes(ph.data[k][: got[k]]), fins[k])
        pc.phases.append(np_)
    return pc


# ------------------------------------------------------------------ difference classifier


def _first_item_diff(a, b):
    for i, (x, y) in enumerate(zip(a, b)):
        if x != y:
            return i, x, y
    if len(a) != len(b):
        i = min(len(a), len(b))
        return i, (a[i] if i < len(a) else None), (b[i] if i < len(b) else None)
    return None


def frame_ending_at(data: bytes, start: int, end: int):
    """class of the frame of a message stream that ends at byte offset `end`"""
    for f in parse_frames(data, start):
        if f["complete"] and not f.get("wt") and f["ps"] is not None and f["end"] == end:
            return tclass(f["t"])
    return "?"


def close_diag(case: Case, o: Outcome):
    """name the step that called close(): needs an Outcome produced with probe=True"""
    full = case.full_streams()
    if o.closed_by is None:
        return "?"
    k, blocked = o.closed_by
    if o.probe is not None:
        sid, ftype, resumed, buffered, delivered = o.probe
        d, f = full.get(sid, (b"", False))
        lay = stream_layout(sid, d)
        if resumed:
            # the frame the stream was blocked on ends where the still-buffered bytes begin
            return "resume-of-blocked-%s(handled-as-%s)" % (frame_ending_at(d, lay[1], delivered - buffered), tclass(ftype))
        kind = "msg" if lay[0] == "push" else lay[0]
        return "frame=%s@%s:fin=%s" % (tclass(ftype), kind, fin_class(lay, len(d)) if f else "none")
    if k == "dg":
        return "by=dg"
    d, f = full.get(k, (b"", False))
    lay = stream_layout(k, d)
    kind = "msg" if lay[0] == "push" else lay[0]
    return "by=%s:fin=%s" % (kind, fin_class(lay, len(d)) if f else "none")


def classify(case: Case, ref: Outcome, var: Outcome, diag=None):
    """List of (signature, text) describing how `var` (some splitting/interleaving) differs from
    `ref` (whole streams, sender order) in a way the property forbids; [] when equivalent."""
    out = []
    full = case.full_streams()

    def ctx(sid):
        d, f = full.get(sid, (b"", False))
        lay = stream_layout(sid, d)
        c = ("msg" if lay[0] == "push" else lay[0]) + ":fin=" + (fin_class(lay, len(d)) if f else "none")
        return c

    if ref.raised or var.raised:
        if ref.raised != var.raised:
            out.append(("chunk:exception-differs:%s-vs-%s" % (ref.raised or "none", var.raised or "none"),
                        "reference delivery raised %s, this delivery raised %s" % (ref.raised, var.raised)))
        return out
    if ref.closed is not None:
        if var.closed is None:
            out.append(("chunk:close-missing:0x%x:%s" % (ref.closed, diag or _blame(ref, ctx)),
                        "reference delivery closes the connection with 0x%x, this delivery does not close" % ref.closed))
        elif var.closed != ref.closed:
            out.append(("chunk:close-code-differs:0x%x:%s" % (var.closed, diag or _blame(var, ctx)),
                        "close code 0x%x (reference) vs 0x%x" % (ref.closed, var.closed)))
        return out
    if var.closed is not None:
        out.append(("chunk:close-only-when-split:0x%x:%s" % (var.closed, diag or _blame(var, ctx)),
                    "reference delivery does not close; this delivery closes with 0x%x" % var.closed))
        return out
    for sid in sorted(set(ref.streams) | set(var.streams), key=str):
        a = ref.streams.get(sid, {"items": [], "ended": 0, "after_end": False})
        b = var.streams.get(sid, {"items": [], "ended": 0, "after_end": False})
        if a["items"] != b["items"]:
            d = _first_item_diff(a["items"], b["items"])
            i, x, y = d
            kind = (x or y)[0]
            what = {"H": "headers", "P": "push-promise", "D": "body", "W": "webtransport"}.get(kind, "events")
            if x is not None and y is not None and x[0] == y[0] and x[1] != y[1]:
                what += "-id"
            elif x is None or y is None:
                what += "-missing" if y is None else "-extra"
            elif x[0] != y[0]:
                what = "item-kind"
            out.append(("chunk:%s-differ:%s" % (what, ctx(sid)),
                        "stream %s item %d: reference %s, got %s" % (sid, i, _short(x), _short(y))))
        elif a["ended"] != b["ended"]:
            w = "ended-lost" if b["ended"] < a["ended"] else ("ended-gained" if a["ended"] == 0 else "ended-twice")
            out.append(("chunk:%s:%s" % (w, ctx(sid)),
                        "stream %s: reference signals end of stream %d time(s), this delivery %d time(s)%s"
                        % (sid, a["ended"], b["ended"], " (FIN delivered alone)" if sid in var.fin_alone_sids else "")))
        elif a["after_end"] != b["after_end"]:
            out.append(("chunk:events-after-end:%s" % ctx(sid), "stream %s: events after the end flag" % sid))
    if ref.dgrams != var.dgrams:
        out.append(("chunk:datagrams-differ", "datagram events differ: %d vs %d" % (len(ref.dgrams), len(var.dgrams))))
    if ref.settings != var.settings:
        out.append(("chunk:received-settings-differ", "received_settings %r vs %r" % (ref.settings, var.settings)))
    return out


def _blame(o: Outcome, ctx):
    """Context of the delivery step that triggered close(): the stream being delivered, and (when it
    is the QPACK encoder stream) the streams that were blocked at that moment."""
    if o.closed_by is None:
        return "?"
    k, blocked = o.closed_by
    c = "by=" + ("dg" if k == "dg" else ctx(k))
    if blocked:
        c += ";resuming=" + "+".join(sorted({ctx(b) for b in blocked}))[:160]
    return c


def _short(x):
    if x is None:
        return "nothing"
    k, i, p = x
    if isinstance(p, (bytes, bytearray)):
        p = "%d bytes %s" % (len(p), bytes(p[:12]).hex())
    else:
        p = repr(p)[:120]
    return "%s(id=%r, %s)" % (k, i, p)
