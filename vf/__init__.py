"""Runtime-monitoring verification framework for aioquic (see /verif/DESIGN.md)."""
