"""Independent RFC 9001 / RFC 9369 packet protection (written from the RFCs).

Uses only hmac/hashlib and `cryptography` primitives; shares no code with aioquic.
"""

from __future__ import annotations

import hashlib
import hmac

from cryptography.hazmat.primitives.ciphers import Cipher, algorithms, modes
from cryptography.hazmat.primitives.ciphers.aead import AESGCM, ChaCha20Poly1305

V1 = 0x00000001
V2 = 0x6B3343CF

INITIAL_SALT = {
    V1: bytes.fromhex("38762cf7f55934b34d179ae6a4c80cadccbb7f0a"),
    V2: bytes.fromhex("0dede3def700a6db819381be6e269dcbf9bd2ed9"),
}
RETRY_KEY = {
    V1: bytes.fromhex("be0c690b9f66575a1d766b54e368c84e"),
    V2: bytes.fromhex("8fb4b01b56ac48e260fbcbcead7ccc92"),
}
RETRY_NONCE = {
    V1: bytes.fromhex("461599d35d632bf2239825bb"),
    V2: bytes.fromhex("d86969bc2d7c6d9990efb04a"),
}

# suites: name -> (hash, key_len, aead kind)
SUITES = {
    "AES_128_GCM_SHA256": ("sha256", 16, "aesgcm"),
    "AES_256_GCM_SHA384": ("sha384", 32, "aesgcm"),
    "CHACHA20_POLY1305_SHA256": ("sha256", 32, "chacha"),
}
SUITE_BY_CODE = {0x1301: "AES_128_GCM_SHA256", 0x1302: "AES_256_GCM_SHA384", 0x1303: "CHACHA20_POLY1305_SHA256"}


def hkdf_extract(hash_name: str, salt: bytes, ikm: bytes) -> bytes:
    return hmac.new(salt, ikm, hash_name).digest()


def hkdf_expand(hash_name: str, prk: bytes, info: bytes, length: int) -> bytes:
    out = b""
    t = b""
    i = 1
    while len(out) < length:
        t = hmac.new(prk, t + info + bytes([i]), hash_name).digest()
        out += t
        i += 1
    return out[:length]


def hkdf_expand_label(hash_name: str, secret: bytes, label: bytes, context: bytes, length: int) -> bytes:
    full = b"tls13 " + label
    info = length.to_bytes(2, "big") + bytes([len(full)]) + full + bytes([len(context)]) + context
    return hkdf_expand(hash_name, secret, info, length)


def label(version: int, what: str) -> bytes:
    return (("quicv2 " if version == V2 else "quic ") + what).encode()


class Keys:
    """key/iv/hp for one direction of one epoch / key phase."""

    def __init__(self, suite: str, secret: bytes, version: int):
        self.suite = suite
        self.secret = secret
        self.version = version
        hash_name, key_len, kind = SUITES[suite]
        self.hash_name = hash_name
        self.kind = kind
        self.key = hkdf_expand_label(hash_name, secret, label(version, "key"), b"", key_len)
        self.iv = hkdf_expand_label(hash_name, secret, label(version, "iv"), b"", 12)
        self.hp = hkdf_expand_label(hash_name, secret, label(version, "hp"), b"", key_len)
        self.aead = AESGCM(self.key) if kind == "aesgcm" else ChaCha20Poly1305(self.key)

    def next_phase(self) -> "Keys":
        """RFC 9001 6.1 / RFC 9369 3.3.2: secret' = HKDF-Expand-Label(secret, "quic ku"/"quicv2 ku"); hp key unchanged."""
        hlen = hashlib.new(self.hash_name).digest_size
        nxt = Keys.__new__(Keys)
        nxt.suite, nxt.version, nxt.hash_name, nxt.kind = self.suite, self.version, self.hash_name, self.kind
        nxt.secret = hkdf_expand_label(self.hash_name, self.secret, label(self.version, "ku"), b"", hlen)
        key_len = SUITES[self.suite][1]
        nxt.key = hkdf_expand_label(self.hash_name, nxt.secret, label(self.version, "key"), b"", key_len)
        nxt.iv = hkdf_expand_label(self.hash_name, nxt.secret, label(self.version, "iv"), b"", 12)
        nxt.hp = self.hp
        nxt.aead = AESGCM(nxt.key) if self.kind == "aesgcm" else ChaCha20Poly1305(nxt.key)
        return nxt

    def hp_mask(self, sample: bytes) -> bytes:
        assert len(sample) == 16
        if self.kind == "aesgcm":
            enc = Cipher(algorithms.AES(self.hp), modes.ECB()).encryptor()
            return (enc.update(sample) + enc.finalize())[:5]
        # ChaCha20: counter = sample[0:4] (LE), nonce = sample[4:16]; cryptography takes counter||nonce
        enc = Cipher(algorithms.ChaCha20(self.hp, sample), mode=None).encryptor()
        return enc.update(b"\x00" * 5)

    def nonce(self, pn: int) -> bytes:
        return (int.from_bytes(self.iv, "big") ^ pn).to_bytes(12, "big")

    def seal(self, pn: int, header: bytes, payload: bytes) -> bytes:
        return self.aead.encrypt(self.nonce(pn), payload, header)

    def open(self, pn: int, header: bytes, ciphertext: bytes) -> bytes:
        return self.aead.decrypt(self.nonce(pn), ciphertext, header)  # raises InvalidTag


def initial_keys(version: int, client_dcid: bytes):
    """returns (client_keys, server_keys)"""
    initial_secret = hkdf_extract("sha256", INITIAL_SALT[version], client_dcid)
    c = hkdf_expand_label("sha256", initial_secret, b"client in", b"", 32)
    s = hkdf_expand_label("sha256", initial_secret, b"server in", b"", 32)
    return Keys("AES_128_GCM_SHA256", c, version), Keys("AES_128_GCM_SHA256", s, version)


def retry_tag(version: int, odcid: bytes, retry_without_tag: bytes) -> bytes:
    pseudo = bytes([len(odcid)]) + odcid + retry_without_tag
    return AESGCM(RETRY_KEY[version]).encrypt(RETRY_NONCE[version], b"", pseudo)


def decode_pn(truncated: int, nbits: int, expected: int) -> int:
    """RFC 9000 A.3."""
    win = 1 << nbits
    hwin = win >> 1
    mask = win - 1
    cand = (expected & ~mask) | truncated
    if cand <= expected - hwin and cand < (1 << 62) - win:
        return cand + win
    if cand > expected + hwin and cand >= win:
        return cand - win
    return cand


def protect(keys: Keys, header_wo_pn: bytes, pn: int, pn_len: int, payload: bytes) -> bytes:
    """Build a protected packet. header_wo_pn's first byte must already carry pn_len-1 in its low
    two bits (and, for long headers, the Length field must already account for pn_len+len(payload)+16)."""
    pn_bytes = (pn & ((1 << (8 * pn_len)) - 1)).to_bytes(pn_len, "big")
    header = header_wo_pn + pn_bytes
    ct = keys.seal(pn, header, payload)
    pkt = bytearray(header + ct)
    pn_off = len(header_wo_pn)
    sample = bytes(pkt[pn_off + 4 : pn_off + 20])
    if len(sample) < 16:
        raise ValueError("payload too short for header protection sample")
    mask = keys.hp_mask(sample)
    pkt[0] ^= mask[0] & (0x0F if pkt[0] & 0x80 else 0x1F)
    for i in range(pn_len):
        pkt[pn_off + i] ^= mask[1 + i]
    return bytes(pkt)


def unprotect_header(keys: Keys, packet: bytes, pn_off: int):
    """returns (first_byte, pn_len, truncated_pn, header_bytes) or raises ValueError if too short."""
    if pn_off + 4 + 16 > len(packet):
        raise ValueError("packet too short for sample")
    sample = packet[pn_off + 4 : pn_off + 20]
    mask = keys.hp_mask(sample)
    first = packet[0] ^ (mask[0] & (0x0F if packet[0] & 0x80 else 0x1F))
    pn_len = (first & 3) + 1
    pn_bytes = bytes(packet[pn_off + i] ^ mask[1 + i] for i in range(pn_len))
    header = bytes([first]) + packet[1:pn_off] + pn_bytes
    return first, pn_len, int.from_bytes(pn_bytes, "big"), header
