"""C03 parts (a) and (b) at TLS level: two real aioquic.tls.Context objects back to back.

(a) every handshake message x byte position x mask is altered in transit (one fresh handshake
    per alteration, delivered message by message); the endpoint that RECEIVED the altered
    message must never reach its post-handshake state nor release its 1-RTT receive secret.
(b) a hostile server (built from the real server code plus harness-side puppeteering of its
    signing key / ticket store, or a certificate the client must not accept) must never get the
    client to its post-handshake state.
No aioquic import at module level (the runner's parent imports this file for plan()).
"""

from __future__ import annotations

import dataclasses
import hashlib
import hmac
import os
from collections import deque

from . import refcrypto as rc
from .c03_pki import KEY_TYPES, pki
from .common import exc_witness, h

HS_NAMES = {
    1: "ClientHello", 2: "ServerHello", 4: "NewSessionTicket", 5: "EndOfEarlyData", 8: "EncryptedExtensions",
    11: "Certificate", 13: "CertificateRequest", 15: "CertificateVerify", 20: "Finished",
}
EXT_NAMES = {
    0: "server_name", 10: "supported_groups", 13: "signature_algorithms", 16: "alpn", 41: "pre_shared_key",
    42: "early_data", 43: "supported_versions", 45: "psk_key_exchange_modes", 51: "key_share", 0x39: "quic_tp",
}
MASKS = (0x01, 0x80, 0xFF)
TP_CLIENT = bytes.fromhex("0104800075300408ffffffffffffffff05048010000006048010000007048010000008024064090240640e01080f08c1c2c3c4c5c6c7c8")
TP_SERVER = bytes.fromhex("0008d1d2d3d4d5d6d7d80104800075300408ffffffffffffffff050480100000060480100000070480100000080240640f08e1e2e3e4e5e6e7e8")

# (a) configurations: server key type / client-certificate request / PSK resumption
A_CONFIGS = {
    "rsa": dict(key="rsa"),
    "p256+alpn+tickets": dict(key="p256", alpn=True, tickets=True),
    "ed25519+chacha": dict(key="ed25519", suites=["CHACHA20_POLY1305_SHA256", "AES_128_GCM_SHA256"]),
    "rsa+clientcert-p256": dict(key="rsa", client_cert="p256", alpn=True),
    "ed25519+clientcert-none": dict(key="ed25519", client_cert="none"),
    "p256+clientcert-rsa": dict(key="p256", client_cert="rsa", suites=["AES_128_GCM_SHA256"]),
    "p384+clientcert-ed448": dict(key="p384", client_cert="ed448", tickets=True),
    "ed448+aes256": dict(key="ed448", suites=["AES_256_GCM_SHA384"], alpn=True),
    "psk-sha384": dict(key="p256", psk=True),
    "psk-sha256+alpn": dict(key="rsa", psk=True, suites=["AES_128_GCM_SHA256"], alpn=True),
}


# ------------------------------------------------------------------ message structure (harness side)


def fields(msg: bytes):
    """[(start, end, name)] for one handshake message; falls back to coarse fields when the
    walker cannot follow the bytes (it is only used to choose and to name positions)."""
    out = []
    p = [0]
    n_msg = len(msg)

    def f(n, name):
        if n > 0:
            out.append((p[0], min(p[0] + n, n_msg), name))
        p[0] += n

    def u(n):
        if p[0] + n > n_msg:
            raise IndexError
        return int.from_bytes(msg[p[0] : p[0] + n], "big")

    def exts(t):
        n = u(2)
        f(2, "extensions_length")
        end = p[0] + n
        while p[0] < end:
            et = u(2)
            name = EXT_NAMES.get(et, "ext%d" % et)
            f(2, name + ".type")
            ln = u(2)
            f(2, name + ".length")
            if et == 41 and t == 1:
                il = u(2)
                f(2, "psk.identities_length")
                iend = p[0] + il
                while p[0] < iend:
                    ln2 = u(2)
                    f(2, "psk.identity_length")
                    f(ln2, "psk.identity")
                    f(4, "psk.obfuscated_age")
                u(2)
                f(2, "psk.binders_length")
                while p[0] < end:
                    ln2 = u(1)
                    f(1, "psk.binder_length")
                    f(ln2, "psk.binder")
            else:
                f(ln, name + ".body")

    try:
        t = msg[0]
        f(1, "msg_type")
        f(3, "msg_length")
        if t in (1, 2):
            f(2, "legacy_version")
            f(32, "random")
            n = u(1)
            f(1, "session_id_length")
            f(n, "session_id")
            if t == 1:
                n = u(2)
                f(2, "cipher_suites_length")
                f(n, "cipher_suites")
                n = u(1)
                f(1, "compression_length")
                f(n, "compression")
            else:
                f(2, "cipher_suite")
                f(1, "compression")
            exts(t)
        elif t == 8:
            exts(t)
        elif t == 13:
            n = u(1)
            f(1, "context_length")
            f(n, "context")
            exts(t)
        elif t == 11:
            n = u(1)
            f(1, "context_length")
            f(n, "context")
            n = u(3)
            f(3, "list_length")
            end = p[0] + n
            while p[0] < end:
                ln = u(3)
                f(3, "cert_length")
                f(ln, "cert_der")
                ln = u(2)
                f(2, "cert_ext_length")
                f(ln, "cert_ext")
        elif t == 15:
            f(2, "algorithm")
            n = u(2)
            f(2, "signature_length")
            f(n, "signature")
        if p[0] < n_msg:
            f(n_msg - p[0], "body" if len(out) <= 2 else "tail")
    except IndexError:
        if p[0] < n_msg:
            out.append((p[0], n_msg, "unparsed"))
    return out


def field_at(msg: bytes, pos: int) -> str:
    for s, e, name in fields(msg):
        if s <= pos < e:
            return name
    return "?"


def boundaries(msg: bytes) -> set:
    b = set()
    for s, e, _name in fields(msg):
        b.add(s)
        b.add(e - 1)
    return b


def cut(data: bytes):
    out = []
    p = 0
    while p < len(data):
        ln = 4 + int.from_bytes(data[p + 1 : p + 4], "big")
        out.append(bytes(data[p : p + ln]))
        p += ln
    return out


# ------------------------------------------------------------------ two contexts back to back


class Side:
    def __init__(self, name, ctx):
        from aioquic import tls
        from aioquic.buffer import Buffer

        self.name = name
        self.ctx = ctx
        self.bufs = {e: Buffer(capacity=16384) for e in (tls.Epoch.INITIAL, tls.Epoch.HANDSHAKE, tls.Epoch.ONE_RTT)}
        self.outq = deque()
        self.keys = []
        self.dead = None
        self.dead_at = None
        self.dead_on = None
        ctx.update_traffic_key_cb = self._key

    def _key(self, direction, epoch, suite, secret):
        self.keys.append((direction.name, epoch.name, int(suite), bytes(secret)))

    def state(self):
        return self.ctx.state.name

    def complete(self):
        return self.state().endswith("POST_HANDSHAKE") or any(k[0] == "DECRYPT" and k[1] == "ONE_RTT" for k in self.keys)

    def collect(self):
        for buf in self.bufs.values():
            if buf.tell():
                self.outq.extend(cut(buf.data))
                buf.seek(0)

    def discard(self):
        for buf in self.bufs.values():
            buf.seek(0)


class Store:
    """session tickets of one client/server pair"""

    def __init__(self):
        self.client = []
        self.server = {}

    def add_server(self, t):
        self.server[t.ticket] = t


def build_pair(cfg: dict, store: Store, resume: bool = False):
    from aioquic import tls

    P = pki()
    suites = [tls.CipherSuite[x] for x in cfg["suites"]] if cfg.get("suites") else None
    alpn_c = ["vf-a", "vf-b"] if cfg.get("alpn") else None
    alpn_s = ["vf-b", "vf-a"] if cfg.get("alpn") else None
    import ssl

    c = tls.Context(is_client=True, cadata=P.ca_pem, server_name="localhost", alpn_protocols=alpn_c, cipher_suites=suites,
                    verify_mode=ssl.CERT_NONE if cfg.get("client_cert_none") else (ssl.CERT_OPTIONAL if cfg.get("client_cert_optional") else None))
    c.handshake_extensions = [(tls.ExtensionType.QUIC_TRANSPORT_PARAMETERS, TP_CLIENT)]
    s = tls.Context(is_client=False, alpn_protocols=alpn_s, cipher_suites=suites, max_early_data=0xFFFFFFFF)
    s.handshake_extensions = [(tls.ExtensionType.QUIC_TRANSPORT_PARAMETERS, TP_SERVER)]
    cert, key = P.leaf(cfg.get("key", "p256"), cfg.get("flavour", "good"))
    s.certificate, s.certificate_private_key = cert, key
    s.certificate_chain = P.chain_for(cfg.get("flavour", "good"))
    cc = cfg.get("client_cert")
    if cc:
        s._request_client_certificate = True  # the only switch the TLS engine offers for this
        if cc != "none":
            c.certificate, c.certificate_private_key = P.leaf(cc, "good", cn="client.example")
    if cfg.get("tickets") or cfg.get("psk"):
        c.new_session_ticket_cb = store.client.append
        s.new_session_ticket_cb = store.add_server
    if resume:
        c.session_ticket = store.client[0]
        s.get_session_ticket_cb = store.server.get
    return Side("client", c), Side("server", s)


def pump(cl: Side, sv: Side, mangle=None, log=None, cap=64):
    """Start the client, then deliver message by message (client->server queue first) until both
    queues are empty. mangle(k, sender, msg) -> bytes may replace the k-th delivered message.
    Exceptions out of the *receiving* endpoint's handle_message are recorded (= that endpoint did
    not complete); the endpoint gets no further input."""
    cl.ctx.handle_message(b"", cl.bufs)  # harness-initiated: an exception here is a harness error
    cl.collect()
    k = 0
    progress = True
    while progress and k < cap:
        progress = False
        for snd, rcv in ((cl, sv), (sv, cl)):
            while snd.outq and rcv.dead is None and k < cap:
                msg = snd.outq.popleft()
                data = mangle(k, snd, msg) if mangle is not None else msg
                if log is not None:
                    log.append((k, snd.name, msg[0], len(msg), msg))
                progress = True
                try:
                    rcv.ctx.handle_message(data, rcv.bufs)
                except Exception as exc:  # Alert or anything else: receiver did not complete (typing is C05's)
                    rcv.dead, rcv.dead_at, rcv.dead_on = exc, k, msg[0]
                    rcv.discard()
                else:
                    rcv.collect()
                k += 1
    return k


def secrets_agree(cl: Side, sv: Side):
    """pairwise comparison of the traffic secrets both sides released; returns list of problems"""
    problems = []
    cmap = {(d, e): (su, se) for d, e, su, se in cl.keys}
    smap = {(d, e): (su, se) for d, e, su, se in sv.keys}
    for (d, e), v in cmap.items():
        od = "ENCRYPT" if d == "DECRYPT" else "DECRYPT"
        w = smap.get((od, e))
        if w is None:
            if e != "ZERO_RTT":
                problems.append("client %s/%s has no server counterpart" % (d, e))
        elif w != v:
            problems.append("%s secret or suite differs (client %s / server %s)" % (e, d, od))
    for (d, e) in smap:
        od = "ENCRYPT" if d == "DECRYPT" else "DECRYPT"
        if (od, e) not in cmap and e != "ZERO_RTT":
            problems.append("server %s/%s has no client counterpart" % (d, e))
    return problems


def check_agreement(cl: Side, sv: Side, res, case, where, expect_resumed=None):
    """Property clause 2 at TLS level, evaluated whenever both contexts completed."""
    res.count("agreement_checks_tls")
    probs = secrets_agree(cl, sv)
    if probs:
        res.violation("%s:traffic-secrets-differ" % where, "; ".join(probs[:3]), case)
    if cl.ctx.key_schedule.cipher_suite != sv.ctx.key_schedule.cipher_suite:
        res.violation("%s:cipher-suite-differs" % where, "%r vs %r" % (cl.ctx.key_schedule.cipher_suite, sv.ctx.key_schedule.cipher_suite), case)
    if cl.ctx.alpn_negotiated != sv.ctx.alpn_negotiated:
        res.violation("%s:alpn-differs" % where, "%r vs %r" % (cl.ctx.alpn_negotiated, sv.ctx.alpn_negotiated), case)
    if bool(cl.ctx.session_resumed) != bool(sv.ctx.session_resumed):
        res.violation("%s:session_resumed-differs" % where, "client %r server %r" % (cl.ctx.session_resumed, sv.ctx.session_resumed), case)
    elif expect_resumed is False and cl.ctx.session_resumed:
        res.violation("%s:session_resumed-true-without-ticket" % where, "no ticket was offered, both report resumption", case)


def first_ticket(cfg, store, res):
    """full handshake that leaves a ticket in the store; returns False if it did not complete"""
    cl, sv = build_pair(dict(cfg, client_cert=None), store, resume=False)
    pump(cl, sv)
    return cl.complete() and sv.complete() and store.client and store.server


def exc_name(exc):
    return type(exc).__name__


# ------------------------------------------------------------------ (a) generator


ALL_MASKS = (0x01, 0x02, 0x04, 0x08, 0x10, 0x20, 0x40, 0x80, 0xFF)


KNOWN_TYPES = (1, 2, 4, 5, 8, 11, 13, 15, 20, 24, 25, 254)


def is_length_field(name: str) -> bool:
    return name == "msg_length" or name.endswith("_length") or name.endswith(".length")


def auth_length(mtype: int, name: str) -> bool:
    """length bytes that delimit an authenticated value: Finished / CertificateVerify header and signature
    length, PSK binder lengths -> all 255 masks even in the quick tier"""
    return (mtype in (15, 20) and name in ("msg_length", "signature_length")) or name in ("psk.binder_length", "psk.binders_length")


def masks_for(name: str, value: int, base, full: bool):
    """XOR masks for one byte. Handshake-header bytes and every located length field get the masks
    that matter for them: full=True -> all 255; otherwise the base masks plus EVERY mask that makes a
    length byte smaller (all shortenings of the authenticated value / enclosing vector) and, for the
    type byte, every mask that turns it into another known handshake type."""
    if name == "msg_type":
        if full:
            return range(1, 256)
        return sorted(set(base) | {value ^ t for t in KNOWN_TYPES if t != value})
    if is_length_field(name):
        if full:
            return range(1, 256)
        return sorted(set(base) | {m for m in range(1, 256) if (value ^ m) < value})
    return base


def small_values(v: int):
    """smaller values tried for a multi-byte length field whose value needs more than one byte changed"""
    if v <= 64:
        return list(range(v))
    c = set(range(0, 5)) | {8, 16, 31, 32, 33, 47, 48, 49, 63, 64, 65, 127, 128, 255, 256, v // 2, v - 3, v - 2, v - 1}
    return sorted(x for x in c if 0 <= x < v)


TRUNC_FIELD = {20: "body", 15: "signature", 1: "psk.binder"}
TRUNC_FIXUPS = {
    20: ["msg_length"],
    15: ["signature_length", "msg_length"],
    1: ["psk.binder_length", "psk.binders_length", "pre_shared_key.length", "extensions_length", "msg_length"],
}


def truncate_value(msg: bytes, new_len: int):
    """Finished.verify_data / CertificateVerify.signature / the PSK binder cut to new_len bytes with every
    enclosing length field fixed up consistently. Returns None when not applicable."""
    t = msg[0]
    fl = fields(msg)
    loc = {}
    for s, e, n in fl:
        loc[n] = (s, e)  # last occurrence
    name = TRUNC_FIELD.get(t)
    if name is None or name not in loc:
        return None
    s, e = loc[name]
    if new_len == e - s:
        return None
    delta = (e - s) - new_len  # negative: the value is extended with zero bytes
    b = bytearray(msg)
    for n in TRUNC_FIXUPS[t]:
        fs, fe = loc[n]
        b[fs:fe] = (int.from_bytes(b[fs:fe], "big") - delta).to_bytes(fe - fs, "big")
    if delta > 0:
        del b[s + new_len : e]
    else:
        b[e:e] = bytes(-delta)
    return bytes(b)


def set_field(msg: bytes, field_index: int, value: int):
    fl = fields(msg)
    if field_index >= len(fl):
        return None
    s, e, n = fl[field_index]
    if not is_length_field(n) or int.from_bytes(msg[s:e], "big") == value or value >= 1 << (8 * (e - s)):
        return None
    return msg[:s] + value.to_bytes(e - s, "big") + msg[e:]


def enumerate_targets(log, masks, stride, phase, full=False):
    """targets: [k, pos, mask] XOR of one byte | [k, "trunc", new_len] | [k, "set", field_index, value]"""
    out = []
    for k, _snd, mtype, length, msg in log:
        if mtype == 4:  # NewSessionTicket is post-handshake, not in the property's list
            continue
        fl = fields(msg)
        name_at = {}
        for s, e, n in fl:
            for p in range(s, e):
                name_at[p] = n
        bnd = boundaries(msg) if stride > 1 else ()
        for pos in range(length):
            n = name_at.get(pos, "?")
            special = n == "msg_type" or is_length_field(n)
            if special or stride <= 1 or pos in bnd or pos % stride == phase:
                for m in masks_for(n, msg[pos], masks, full or auth_length(mtype, n)):
                    out.append((k, pos, m))
        for fi, (s, e, n) in enumerate(fl):
            v = int.from_bytes(msg[s:e], "big")
            if is_length_field(n) and e - s >= 2 and v >= 256:
                for x in small_values(v):
                    out.append((k, "set", fi, x))
        tf = TRUNC_FIELD.get(mtype)
        for s, e, n in fl:
            if n == tf:
                for new_len in list(range(e - s)) + [e - s + 1, e - s + 16]:
                    out.append((k, "trunc", new_len))
                break
    return out


def a_flip(batch, res):
    name = batch["config"]
    cfg = A_CONFIGS[name]
    store = Store()
    psk = bool(cfg.get("psk"))
    case0 = {"gen": "a_flip", "config": name}
    if psk and not first_ticket(cfg, store, res):
        res.inconclusive.append("a_flip %s: ticket-issuing handshake did not complete" % name)
        return
    # reference run: which messages exist, in which order
    cl, sv = build_pair(cfg, store, resume=psk)
    log = []
    pump(cl, sv, None, log)
    if not (cl.complete() and sv.complete()):
        res.inconclusive.append(
            "a_flip %s: unaltered handshake did not complete (client %s %r / server %s %r)"
            % (name, cl.state(), cl.dead, sv.state(), sv.dead)
        )
        return
    if psk and not (cl.ctx.session_resumed and sv.ctx.session_resumed):
        res.inconclusive.append("a_flip %s: reference handshake was not resumed" % name)
        return
    check_agreement(cl, sv, res, dict(case0, targets=[]), "a:baseline", expect_resumed=None if psk else False)
    res.count("a_reference_handshakes")
    for _k, snd, mtype, length, _m in log:
        res.count("a_msgs_seen:%s:%s" % (snd, HS_NAMES.get(mtype, mtype)))
    targets = batch.get("targets")
    if targets is None:
        stride = batch.get("stride", 1)
        allt = enumerate_targets(log, batch.get("masks") or MASKS, stride, batch.get("seed", 0) % max(stride, 1), full=bool(batch.get("full_length_masks")))
        targets = allt[batch.get("shard", 0) :: batch.get("nshards", 1)]
        res.maxc("a_targets_total:" + name, len(allt))
    types_by_k = {k: mtype for k, _s, mtype, _l, _m in log}
    for tgt in targets:
        tgt = list(tgt)
        k = tgt[0]
        cl, sv = build_pair(cfg, store, resume=psk)
        info = {}

        def mangle(i, snd, msg, tgt=tgt, info=info, cl=cl, sv=sv):
            if i != tgt[0]:
                return msg
            rcv = sv if snd is cl else cl
            if tgt[1] == "trunc":
                out = truncate_value(msg, tgt[2])
                p, fld, how = tgt[2], TRUNC_FIELD.get(msg[0], "?") + ":resized", "value resized to %d bytes, enclosing lengths fixed up" % tgt[2]
            elif tgt[1] == "set":
                out = set_field(msg, tgt[2], tgt[3])
                fl = fields(msg)
                p = fl[tgt[2]][0] if tgt[2] < len(fl) else 0
                fld, how = field_at(msg, p) + ":set", "length field set to %d" % tgt[3]
            else:
                p = min(tgt[1], len(msg) - 1)
                b = bytearray(msg)
                b[p] ^= tgt[2]
                out, fld, how = bytes(b), field_at(msg, p), "byte XORed with 0x%02x" % tgt[2]
            if out is None:
                info.update(skip=True)
                return msg
            info.update(receiver=rcv, sender=snd, mtype=msg[0], pos=p, field=fld, how=how, before=rcv.complete(), length=len(msg))
            return out

        pump(cl, sv, mangle)
        res.evaluations += 1
        if not info:
            # the reference schedule had this delivery, this run did not reach it
            res.count("a_target_not_reached")
            continue
        if info.get("skip"):
            res.count("a_target_not_applicable")  # e.g. this run's signature is shorter than the requested truncation
            continue
        kind = tgt[1] if isinstance(tgt[1], str) else "xor"
        res.count("a_alterations_" + kind)
        rcv, snd = info["receiver"], info["sender"]
        mname = HS_NAMES.get(info["mtype"], str(info["mtype"]))
        res.count("a_alterations")
        res.count("a_altered:%s->%s:%s" % (snd.name, rcv.name, mname))
        if info["before"]:
            res.count("a_receiver_already_complete")  # cannot happen for the listed messages
            continue
        if rcv.complete():
            both = snd.complete()
            res.violation(
                "a:receiver-completes:%s-altered:%s:%s" % (mname, rcv.name, "psk" if psk else "full"),
                "%s accepted a %s altered at %d (%s: %s) and reached %s (1-RTT receive secret released: %s); "
                "sender side %s; secrets %s"
                % (rcv.name, mname, info["pos"], info["field"], info["how"], rcv.state(),
                   any(x[0] == "DECRYPT" and x[1] == "ONE_RTT" for x in rcv.keys), snd.state(),
                   "identical" if both and not secrets_agree(cl, sv) else "differ/unknown"),
                dict(case0, targets=[tgt]),
                {"config": name, "delivery_index": k, "message": mname, "pos": info["pos"], "field": info["field"], "alteration": info["how"],
                 "receiver_state": rcv.state(), "sender_state": snd.state(), "sender_complete": both},
            )
            continue
        if rcv.dead is not None and rcv.dead_at == k:
            outcome = "rejected-at-once:" + exc_name(rcv.dead)
        elif rcv.dead is not None:
            outcome = "rejected-later:%s@%s" % (exc_name(rcv.dead), HS_NAMES.get(rcv.dead_on, rcv.dead_on))
        elif snd.dead is not None:
            outcome = "peer-rejected-reply:%s@%s" % (exc_name(snd.dead), HS_NAMES.get(snd.dead_on, snd.dead_on))
        else:
            outcome = "stalled-incomplete"
        res.count("a_outcome:" + outcome.split("@")[0])
        if snd.complete():
            res.count("obs_a_unaltered_side_completed")  # e.g. the client, when its own Finished was altered in transit
        res.nontrivial.add("a:%s:%s:%s:%s" % (name, mname, info["field"], outcome))
        res.sample({"gen": "a_flip", "config": name, "message": mname, "pos": info["pos"], "field": info["field"], "alteration": info["how"], "outcome": outcome}, limit=2)


# ------------------------------------------------------------------ (b) negative authentication, TLS level


class SigningProxy:
    """A hostile server's signing key: signs something else than what the TLS engine asked for."""

    def __init__(self, key, transform):
        self._key, self._transform = key, transform

    def sign(self, data, *params):
        return self._key.sign(self._transform(data), *params)

    def public_key(self):
        return self._key.public_key()


def _use_proxy(server_ctx, transform, signing_key=None):
    real = server_ctx.certificate_private_key
    algs = server_ctx._signature_algorithms_for_private_key()
    server_ctx.certificate_private_key = SigningProxy(signing_key or real, transform)
    server_ctx._signature_algorithms_for_private_key = lambda: algs


def _wrong_context(data: bytes) -> bytes:
    a, b = b"TLS 1.3, server CertificateVerify", b"TLS 1.3, client CertificateVerify"
    assert a in data
    return data.replace(a, b)


def _wrong_transcript(data: bytes) -> bytes:
    return data[:-1] + bytes([data[-1] ^ 0x01])


def compute_binder(suite_name: str, psk: bytes, truncated_hello: bytes) -> bytes:
    """RFC 8446 4.2.11.2, written from the RFC with hmac/hashlib only."""
    hn = rc.SUITES[suite_name][0]
    L = hashlib.new(hn).digest_size
    early = rc.hkdf_extract(hn, bytes(L), psk)
    binder_key = rc.hkdf_expand_label(hn, early, b"res binder", hashlib.new(hn, b"").digest(), L)
    fk = rc.hkdf_expand_label(hn, binder_key, b"finished", b"", L)
    return hmac.new(fk, hashlib.new(hn, truncated_hello).digest(), hn).digest()


def rebind(msg: bytes, suite_name: str, psk: bytes) -> bytes:
    fl = fields(msg)
    trunc_end = [s for s, e, n in fl if n == "psk.binders_length"][0]
    bs, be = [(s, e) for s, e, n in fl if n == "psk.binder"][0]
    binder = compute_binder(suite_name, psk, msg[:trunc_end])
    assert len(binder) == be - bs
    return msg[:bs] + binder + msg[be:]


B_CERT_CASES = ["wrong-name", "expired", "not-yet", "self-signed", "untrusted-ca",
                "untrusted-ca+root-in-chain", "untrusted-inter+root-in-chain", "untrusted-inter-in-chain"]
# ... and a client with verify_mode CERT_OPTIONAL validates exactly like one with CERT_REQUIRED (for a TLS client the two
# mean the same: the server always presents a certificate)
B_CERT_OPTIONAL_CASES = [c + "+client-cert-optional" for c in B_CERT_CASES] + ["control-good+client-cert-optional"]
# the very same certificate, trust anchors and name, first while it is valid (must complete), then with the clock beyond
# notAfter / before notBefore (tls.utcnow, the engine's own clock function, is moved): validity is a property of the
# moment of each handshake, not of the certificate
B_CLOCK_CASES = ["good-then-clock-after-not-after", "good-then-clock-before-not-before"]
B_SIG_CASES = ["cv-wrong-key", "cv-wrong-context", "cv-wrong-transcript", "empty-certificate-list-no-certificate-verify",
               # a client that switched chain / name validation off (verify_mode CERT_NONE, e.g. because it pins the
               # certificate itself) is still owed the proof of possession of the presented certificate's key
               "cv-wrong-key+client-cert-none", "cv-wrong-context+client-cert-none", "cv-wrong-transcript+client-cert-none"]
B_PSK_CASES = ["psk-impostor-server", "psk-client-secret-unknown-to-server", "psk-unknown-ticket-then-bad-cert",
               "psk-claimed-without-secret:AES_128_GCM_SHA256", "psk-claimed-without-secret:AES_256_GCM_SHA384", "psk-claimed-without-secret:CHACHA20_POLY1305_SHA256"]


def b_run(case: str, kind: str, res, batch):
    """returns (client Side, server Side, expected: 'must-fail'|'must-complete')"""
    from aioquic import tls

    P = pki()
    cfg = {"key": kind, "alpn": True, "tickets": True}
    store = Store()
    mangle = None
    expect = "must-fail"
    resume = False
    if case.startswith("psk-claimed"):
        cfg = dict(cfg, suites=None)  # the client offers its whole default list, so the impostor has a choice
    if case.startswith("psk") or case == "control-psk-rebind-same-secret" or case == "control-psk":
        if not first_ticket(cfg, store, res):
            res.inconclusive.append("b %s/%s: ticket-issuing handshake did not complete" % (case, kind))
            return None
        resume = True
        res.count("b_tickets_issued")
    if case.endswith("+client-cert-none"):
        cfg = dict(cfg, client_cert_none=True)
        case = case[: -len("+client-cert-none")]
        res.count("b_client_cert_none_cases")
    elif case.endswith("+client-cert-optional"):
        cfg = dict(cfg, client_cert_optional=True)
        case = case[: -len("+client-cert-optional")]
        res.count("b_client_cert_optional_cases")
    if case in B_CERT_CASES:
        cfg = dict(cfg, flavour=case)
    if case in B_CLOCK_CASES:
        import datetime

        cl0, sv0 = build_pair(cfg, store)
        pump(cl0, sv0)
        if not cl0.complete():
            res.inconclusive.append("b %s/%s: the handshake with the valid certificate did not complete" % (case, kind))
            return None
        shift = datetime.timedelta(days=36500 if "after" in case else -36500)
        real = tls.utcnow
        tls.utcnow = lambda: real() + shift
        try:
            cl, sv = build_pair(cfg, store)
            pump(cl, sv)
        finally:
            tls.utcnow = real
        res.count("b_clock_cases")
        return cl, sv, "must-fail"
    cl, sv = build_pair(cfg, store, resume=resume)
    suite_name = None
    if resume:
        suite_name = tls.CipherSuite(store.client[0].cipher_suite).name
    if case == "cv-wrong-key":
        sv.ctx.certificate_private_key = P.key(kind, slot=1)
    elif case == "empty-certificate-list-no-certificate-verify":
        # an impostor without any certificate key: Certificate with an empty list, no CertificateVerify, and a Finished
        # computed over exactly that transcript (legal only for a *client* answering a CertificateRequest)
        orig_hello = sv.ctx._server_handle_hello

        def impostor_hello(*a, _orig=orig_hello):
            pc, pcv = tls.push_certificate, tls.push_certificate_verify
            tls.push_certificate = lambda buf, cert: pc(buf, tls.Certificate(request_context=cert.request_context, certificates=[]))
            tls.push_certificate_verify = lambda buf, verify: None
            try:
                return _orig(*a)
            finally:
                tls.push_certificate, tls.push_certificate_verify = pc, pcv

        sv.ctx._server_handle_hello = impostor_hello
    elif case == "cv-wrong-context":
        _use_proxy(sv.ctx, _wrong_context)
    elif case == "cv-wrong-transcript":
        _use_proxy(sv.ctx, _wrong_transcript)
    elif case == "control-proxy-identity":
        _use_proxy(sv.ctx, lambda d: d)
        expect = "must-complete"
    elif case == "control-good":
        expect = "must-complete"
    elif case == "control-psk":
        expect = "must-complete-resumed"
    elif case in ("psk-impostor-server", "control-psk-rebind-same-secret"):
        real = store.client[0]
        if case == "psk-impostor-server":
            wrong = os.urandom(len(real.resumption_secret))
            expect = "must-fail"
        else:
            wrong = real.resumption_secret
            expect = "must-complete-resumed"
        # the impostor knows the ticket label but not the secret behind it
        sv.ctx.get_session_ticket_cb = lambda label: dataclasses.replace(store.server[label], resumption_secret=wrong) if label in store.server else None

        def mangle(i, snd, msg, wrong=wrong):
            if i == 0 and msg[0] == 1:
                out = rebind(msg, suite_name, wrong)
                if wrong == real.resumption_secret and out != msg:
                    raise RuntimeError("harness: independent binder computation disagrees with the client's own binder")
                return out
            return msg

    elif case.startswith("psk-claimed-without-secret:"):
        # an impostor that knows neither a certificate key nor the resumption secret answers ServerHello with
        # pre_shared_key=0 and the given cipher suite (the ticket's or another one the client offered), derives
        # everything from the (EC)DHE share alone and goes straight to EncryptedExtensions + Finished
        import functools

        sv.ctx._server_handle_hello = functools.partial(_claim_psk_without_secret, sv.ctx, tls.CipherSuite[case.split(":")[1]])
    elif case == "psk-client-secret-unknown-to-server":
        # the client holds a ticket whose secret differs from what the server stored
        cl.ctx.session_ticket = dataclasses.replace(store.client[0], resumption_secret=os.urandom(len(store.client[0].resumption_secret)))
    elif case == "psk-unknown-ticket-then-bad-cert":
        # server does not know the ticket at all -> full handshake, where it must still authenticate
        sv.ctx.get_session_ticket_cb = lambda label: None
        sv.ctx.certificate, sv.ctx.certificate_private_key = P.leaf(kind, "self-signed")
    elif case == "control-psk-unknown-ticket":
        sv.ctx.get_session_ticket_cb = lambda label: None
        expect = "must-complete-full"
    pump(cl, sv, mangle)
    return cl, sv, expect


def _claim_psk_without_secret(ctx, cipher_suite, input_buf, initial_buf, handshake_buf, onertt_buf):
    """Attacker routine (replaces the impostor server's own ClientHello handler; built from the TLS engine's public
    primitives — it is the *attack*, not the oracle)."""
    import os as _os

    from aioquic import tls
    from cryptography.hazmat.primitives.asymmetric import ec, x448, x25519

    peer_hello = tls.pull_client_hello(input_buf)
    if peer_hello.pre_shared_key is None or cipher_suite not in peer_hello.cipher_suites:
        raise RuntimeError("harness: the client did not offer a PSK / the suite")
    ctx.client_random = peer_hello.random
    ctx.server_random = _os.urandom(32)
    ctx.legacy_session_id = peer_hello.legacy_session_id
    ctx.received_extensions = peer_hello.other_extensions
    ctx.alpn_negotiated = peer_hello.alpn_protocols[0] if peer_hello.alpn_protocols else None
    ctx.key_schedule = tls.KeySchedule(cipher_suite)
    ctx.key_schedule.extract(None)
    ctx.key_schedule.update_hash(input_buf.data)
    shared_key = None
    for key_share in peer_hello.key_share:
        pub = tls.decode_public_key(key_share)
        if isinstance(pub, x25519.X25519PublicKey):
            priv = x25519.X25519PrivateKey.generate()
            shared_key = priv.exchange(pub)
        elif isinstance(pub, x448.X448PublicKey):
            priv = x448.X448PrivateKey.generate()
            shared_key = priv.exchange(pub)
        elif isinstance(pub, ec.EllipticCurvePublicKey):
            priv = ec.generate_private_key(pub.curve)
            shared_key = priv.exchange(ec.ECDH(), pub)
        if shared_key is not None:
            break
    hello = tls.ServerHello(random=ctx.server_random, legacy_session_id=ctx.legacy_session_id, cipher_suite=cipher_suite,
                            compression_method=tls.CompressionMethod.NULL, key_share=tls.encode_public_key(priv.public_key()),
                            pre_shared_key=0, supported_version=tls.TLS_VERSION_1_3)
    with tls.push_message(ctx.key_schedule, initial_buf):
        tls.push_server_hello(initial_buf, hello)
    ctx.key_schedule.extract(shared_key)
    ctx._setup_traffic_protection(tls.Direction.ENCRYPT, tls.Epoch.HANDSHAKE, b"s hs traffic")
    ctx._setup_traffic_protection(tls.Direction.DECRYPT, tls.Epoch.HANDSHAKE, b"c hs traffic")
    with tls.push_message(ctx.key_schedule, handshake_buf):
        tls.push_encrypted_extensions(handshake_buf, tls.EncryptedExtensions(alpn_protocol=ctx.alpn_negotiated, early_data=False, other_extensions=ctx.handshake_extensions))
    with tls.push_message(ctx.key_schedule, handshake_buf):
        tls.push_finished(handshake_buf, tls.Finished(verify_data=ctx.key_schedule.finished_verify_data(ctx._enc_key)))
    ctx.key_schedule.extract(None)
    ctx._setup_traffic_protection(tls.Direction.ENCRYPT, tls.Epoch.ONE_RTT, b"s ap traffic")
    ctx._next_dec_key = ctx.key_schedule.derive_secret(b"c ap traffic")
    ctx._psk_key_exchange_mode = None
    ctx._server_expect_finished(onertt_buf)


def b_negauth_tls(batch, res):
    cases = batch.get("cases") or (
        B_CERT_CASES + B_CERT_OPTIONAL_CASES[:-1] + B_CLOCK_CASES + B_SIG_CASES + B_PSK_CASES
        + ["control-good", "control-good+client-cert-none", "control-good+client-cert-optional", "control-proxy-identity", "control-psk", "control-psk-rebind-same-secret", "control-psk-unknown-ticket"]
    )
    kinds = batch.get("kinds") or KEY_TYPES
    for kind in kinds:
        for case in cases:
            r = b_run(case, kind, res, batch)
            if r is None:
                continue
            cl, sv, expect = r
            res.evaluations += 1
            rep = {"gen": "b_negauth_tls", "cases": [case], "kinds": [kind]}
            why = exc_name(cl.dead) if cl.dead is not None else ("server:" + exc_name(sv.dead) if sv.dead is not None else "-")
            if expect == "must-fail":
                res.count("b_tls_negative_cases")
                if cl.complete():
                    res.violation(
                        "b:client-completes:%s" % case,
                        "client reached %s against a server that %s (server key type %s)" % (cl.state(), case, kind),
                        rep,
                        {"client_state": cl.state(), "server_state": sv.state(), "server_exc": repr(sv.dead)},
                    )
                else:
                    res.count("b_outcome:%s:%s" % (case, why))
                    res.nontrivial.add("b:%s:%s:%s" % (case, kind, why))
            else:
                res.count("b_tls_positive_controls")
                ok = cl.complete() and sv.complete()
                if ok and expect == "must-complete-resumed":
                    ok = bool(cl.ctx.session_resumed and sv.ctx.session_resumed)
                if not ok:
                    res.inconclusive.append(
                        "b control %s/%s did not complete as expected (client %s %r, server %s %r)" % (case, kind, cl.state(), cl.dead, sv.state(), sv.dead)
                    )
                    continue
                check_agreement(cl, sv, res, rep, "b:control", expect_resumed=False if case in ("control-good", "control-proxy-identity") else None)
                if expect == "must-complete-full" and (cl.ctx.session_resumed or sv.ctx.session_resumed):
                    res.violation("b:session_resumed-true-on-full-handshake", "server did not know the ticket yet resumption is reported", rep)
                res.nontrivial.add("b:%s:%s:completed" % (case, kind))
    res.sample({"gen": "b_negauth_tls", "kinds": kinds, "cases": len(cases)}, limit=1)
