"""Helpers for the C04 check (native helpers never access memory out of bounds).

* SanWatch      - incremental reader of this process' sanitizer log (VF_SANLOG prefix), so
                  that every report block is attributed to the case that triggered it, with the
                  same signature the runner computes (runner.parse_sanitizer_log).
* Sandbox       - runs cases in *forked grandchildren* of a clean batch process: a segfault
                  loses one case and heap damage after a WRITE overflow stays contained (the
                  process is replaced after such a report).
* constants()   - #define constants parsed out of the *staged* _crypto.c.
* Ref           - independent packet protection primitives (vf.refcrypto.Keys with raw keys).
* Contracts     - checking proxies for aioquic.quic.crypto.AEAD / HeaderProtection (second,
                  build-independent observer).
* redzone_probe - asks the ASan runtime whether a live AEAD / HeaderProtection object has poisoned
                  bytes inside (hook H1 active) - works before and after the C fixes.
"""

from __future__ import annotations

import ctypes
import json
import mmap
import os
import re
import signal
import struct
import time

from .common import Result


def parse_sanitizer_log(text):
    """the runner's own parser (imported on first use: the clean path never needs it), so that an
    attributed signature is exactly the one the runner would compute for the same block"""
    from .runner import parse_sanitizer_log as f

    return f(text)

# ------------------------------------------------------------------ sanitizer log


class SanWatch:
    def __init__(self):
        self.prefix = os.environ.get("VF_SANLOG")
        self.offsets = {}

    def _path(self, pid=None):
        return "%s.%d" % (self.prefix, pid if pid is not None else os.getpid())

    def dirty(self, pid=None) -> bool:
        """cheap test: has the log of this process grown since the last call to new_reports?"""
        if not self.prefix:
            return False
        p = self._path(pid)
        try:
            return os.stat(p).st_size > self.offsets.get(p, 0)
        except OSError:
            return False

    def new_reports(self, pid=None) -> list:
        """report blocks ({'signature','block'}) appended to the log since the last call"""
        if not self.prefix:
            return []
        p = self._path(pid)
        try:
            with open(p, "rb") as f:
                f.seek(self.offsets.get(p, 0))
                raw = f.read()
        except OSError:
            return []
        if not raw:
            return []
        self.offsets[p] = self.offsets.get(p, 0) + len(raw)
        return parse_sanitizer_log(raw.decode("utf8", "replace"))

    def active(self) -> bool:
        return bool(self.prefix) and "asan" in os.environ.get("LD_PRELOAD", "")


def report_violations(local: Result, reports, case, what_prefix=""):
    """one violation per distinct signature among `reports`, all attributed to `case`"""
    seen = set()
    for rep in reports:
        sig = rep["signature"]
        local.count("san_reports")
        if sig in seen:
            continue
        seen.add(sig)
        local.violation(sig, (what_prefix + " sanitizer report " + sig).strip(), case, {"report": rep["block"][:6000]})
    return seen


# ------------------------------------------------------------------ sandbox

def _needs_fresh_process(reports) -> bool:
    """after a WRITE overflow / SEGV / unknown kind the heap of this process may be damaged"""
    for rep in reports:
        sig = rep["signature"]
        if sig.startswith("asan:") and ":READ:" in sig:
            continue
        if sig.startswith("ubsan:"):
            continue
        return True
    return False


class Sandbox:
    """Execute fn(ctx, case, local) for each case inside forked grandchildren.

    The batch process stays clean.  Reports found in the log after a case are attributed to it.
    A grandchild ends after a case whose report says the heap may be damaged (WRITE / SEGV); the
    parent forks a fresh one for the remaining cases (at most max_reforks times).  Every case
    belongs to a *group* (same method, same broken contract clause): once `group_cap` cases of a
    group produced sanitizer reports the remaining cases of the group are skipped and counted -
    they would repeat the same mechanism, and each report costs a symbolizer round trip.
    """

    def __init__(self, res: Result, watch: SanWatch, max_reforks=30, deadline=None, group_cap=3, max_report_cases=40):
        self.res = res
        self.watch = watch
        self.max_reforks = max_reforks
        self.deadline = deadline
        self.group_cap = group_cap
        self.max_report_cases = max_report_cases  # per run(): a tree this broken needs no more witnesses
        self.group_hits = {}
        self.risky_of = None

    def run(self, cases, fn, make_case, setup=None, use_fork=True, group_of=None, risky_of=None):
        """cases: list; fn(ctx, case, local) -> truthy to end the process after this case;
        make_case(case) -> replayable batch dict; setup() -> ctx (inside the grandchild);
        group_of(case) -> str."""
        n = len(cases)
        i = 0
        forks = 0
        group_of = group_of or (lambda c: "all")
        self.risky_of = risky_of  # cases expected to be able to kill the process run in one of their own
        while i < n:
            if self.deadline is not None and time.time() > self.deadline:
                self.res.count("cases_skipped_time_cap", n - i)
                break
            if forks > self.max_reforks:
                self.res.count("cases_skipped_after_refork_cap", n - i)
                break
            forks += 1
            if not use_fork:
                i = self._segment(cases, i, fn, make_case, setup, group_of, self.res, None)[0]
            else:
                i = self._run_forked(cases, i, fn, make_case, setup, group_of)
        self.res.count("sandbox_forks", forks)

    def _segment(self, cases, start, fn, make_case, setup, group_of, local, shm):
        """runs cases[start:] until the end or until the process has to be replaced.
        returns (next index, reason)"""
        ctx = setup() if setup else None
        if self.watch.dirty():
            reps = self.watch.new_reports()
            report_violations(local, reps, make_case(cases[start]), "setup:")
            return start + 1, "report"
        done = 0
        for idx in range(start, len(cases)):
            case = cases[idx]
            grp = group_of(case)
            if self.group_hits.get(grp, 0) >= self.group_cap:
                local.count("cases_skipped_group_report_cap")
                continue
            if sum(self.group_hits.values()) >= self.max_report_cases:
                local.count("cases_skipped_after_report_cap", len(cases) - idx)
                return len(cases), "report-cap"
            risky = bool(self.risky_of and self.risky_of(case)) and shm is not None
            if risky and done:
                return idx, "isolate"  # results so far are handed over before the risky case starts
            if shm is not None:
                struct.pack_into("qq", shm, 0, idx, done)
            stop = fn(ctx, case, local) or (risky and "isolated")
            done += 1
            if self.watch.dirty():
                reps = self.watch.new_reports()  # empty for mere runtime warnings (failed huge malloc)
                report_violations(local, reps, make_case(case))
                if reps:
                    self.group_hits[grp] = self.group_hits.get(grp, 0) + 1
                if _needs_fresh_process(reps) and shm is not None:
                    return idx + 1, "report"
            if stop:
                return idx + 1, "stop:" + str(stop)
            if self.deadline is not None and (done & 63) == 0 and time.time() > self.deadline:
                return idx + 1, "time"
        return len(cases), "end"

    def _run_forked(self, cases, start, fn, make_case, setup, group_of):
        shm = mmap.mmap(-1, 32)  # shared: index of the case being executed, cases done
        struct.pack_into("qq", shm, 0, start, 0)
        rfd, wfd = os.pipe()
        pid = os.fork()
        if pid == 0:
            # ---------------- grandchild
            code = 0
            try:
                os.close(rfd)
                local = Result()
                nxt, reason = self._segment(cases, start, fn, make_case, setup, group_of, local, shm)
                out = local.as_dict()
                out["inconclusive"] = local.inconclusive
                out["next"] = nxt
                out["reason"] = reason
                out["group_hits"] = self.group_hits
                blob = json.dumps(out, default=_json_default).encode()
                off = 0
                while off < len(blob):
                    off += os.write(wfd, blob[off : off + 65536])
                os.close(wfd)
            except BaseException:
                import traceback

                try:
                    os.write(wfd, json.dumps({"harness_error": traceback.format_exc()[-3000:]}).encode())
                except Exception:
                    pass
                code = 3
            os._exit(code)
        # ---------------- parent
        os.close(wfd)
        chunks = []
        while True:
            b = os.read(rfd, 1 << 16)
            if not b:
                break
            chunks.append(b)
        os.close(rfd)
        _, status = os.waitpid(pid, 0)
        cur, done = struct.unpack_from("qq", shm, 0)
        shm.close()
        blob = b"".join(chunks)
        out = None
        if blob:
            try:
                out = json.loads(blob)
            except ValueError:
                out = None
        if out is not None and "harness_error" in out and "next" not in out:
            raise RuntimeError("harness error in sandbox:\n" + out["harness_error"])
        if out is not None and os.WIFEXITED(status) and os.WEXITSTATUS(status) == 0:
            self._merge(out)
            self.group_hits = dict(out.get("group_hits") or {})
            if out["reason"] == "report":
                self.res.count("sandbox_restarts_after_report")
            return out["next"]
        # the grandchild died while executing case `cur`
        cur = min(cur, len(cases) - 1)
        case = make_case(cases[cur])
        grp = group_of(cases[cur])
        self.group_hits[grp] = self.group_hits.get(grp, 0) + 1
        reports = self.watch.new_reports(pid)
        sigs = report_violations(self.res, reports, case, "process died:")
        if os.WIFSIGNALED(status):
            signo = os.WTERMSIG(status)
            try:
                name = signal.Signals(signo).name
            except ValueError:
                name = str(signo)
            self.res.violation("signal:%s" % name, "process died on %s while executing the case" % name, case, {"status": status})
        elif not sigs:
            # exited abnormally without any sanitizer report and without a result: harness problem
            raise RuntimeError("sandbox process exited with status %r and no result/report (case %r)" % (status, case))
        self.res.count("sandbox_crashes")
        self.res.evaluations += 1
        self.res.count("cases_lost_counters_in_crashed_segment", done)
        return cur + 1

    def _merge(self, out):
        r = self.res
        r.evaluations += int(out.get("evaluations", 0))
        r.nontrivial.update(out.get("nontrivial", []))
        for k, v in (out.get("counters") or {}).items():
            r.counters[k] = r.counters.get(k, 0) + v
        for v in out.get("violations") or []:
            n = sum(1 for x in r.violations if x["signature"] == v["signature"])
            if n < 3:
                r.violations.append(v)
        for s in out.get("samples") or []:
            r.sample(s, limit=4)
        r.inconclusive.extend(out.get("inconclusive") or [])


def _json_default(o):
    if isinstance(o, (bytes, bytearray)):
        return o.hex()
    if isinstance(o, (set, frozenset)):
        return sorted(o)
    return repr(o)


# ------------------------------------------------------------------ constants of the staged C source

_DEFAULTS = {"PACKET_LENGTH_MAX": 1500, "AEAD_TAG_LENGTH": 16, "SAMPLE_LENGTH": 16, "PACKET_NUMBER_LENGTH_MAX": 4,
             "AEAD_KEY_LENGTH_MAX": 32, "AEAD_NONCE_LENGTH": 12}
_consts = None


def constants() -> dict:
    """integer #defines of the staged _crypto.c (the file that was compiled for this run)"""
    global _consts
    if _consts is None:
        import aioquic

        path = os.path.join(os.path.dirname(os.path.abspath(aioquic.__file__)), "_crypto.c")
        found = {}
        with open(path) as f:
            for line in f:
                m = re.match(r"\s*#\s*define\s+([A-Z_0-9]+)\s+(\d+)\s*$", line)
                if m:
                    found[m.group(1)] = int(m.group(2))
        missing = [k for k in ("PACKET_LENGTH_MAX", "AEAD_TAG_LENGTH", "SAMPLE_LENGTH", "PACKET_NUMBER_LENGTH_MAX") if k not in found]
        if missing:
            raise RuntimeError("constants %s not found in %s" % (missing, path))
        c = dict(_DEFAULTS)
        c.update(found)
        _consts = c
    return _consts


# ------------------------------------------------------------------ independent reference

SUITES = {
    # name: (aead cipher name, hp cipher name, key length, refcrypto kind)
    "aes128": (b"aes-128-gcm", b"aes-128-ecb", 16, "aesgcm"),
    "aes256": (b"aes-256-gcm", b"aes-256-ecb", 32, "aesgcm"),
    "chacha": (b"chacha20-poly1305", b"chacha20", 32, "chacha"),
}
_BY_AEAD = {v[0]: v for v in SUITES.values()}
_BY_HP = {v[1]: v for v in SUITES.values()}


class Ref:
    """vf.refcrypto.Keys carrying raw key material (no secret derivation)."""

    def __init__(self, kind, key=None, iv=None, hp=None):
        from cryptography.hazmat.primitives.ciphers.aead import AESGCM, ChaCha20Poly1305

        from . import refcrypto as rc

        k = rc.Keys.__new__(rc.Keys)
        k.kind = kind
        k.key, k.iv, k.hp = key, iv, hp
        k.aead = None
        if key is not None:
            k.aead = AESGCM(key) if kind == "aesgcm" else ChaCha20Poly1305(key)
        self.k = k
        self._ecb = None
        if hp is not None and kind == "aesgcm":
            # AES-ECB is stateless per block: one encryptor serves every sample (same function as
            # refcrypto.Keys.hp_mask, without building a Cipher object per call)
            from cryptography.hazmat.primitives.ciphers import Cipher, algorithms, modes

            self._ecb = Cipher(algorithms.AES(hp), modes.ECB()).encryptor()

    def mask(self, sample):
        if self._ecb is not None and len(sample) == 16:
            return self._ecb.update(sample)[:5]
        return self.k.hp_mask(sample)

    def seal(self, data, ad, pn):
        return self.k.seal(pn & 0xFFFFFFFFFFFFFFFF, ad, data)

    def open(self, data, ad, pn):
        """plaintext or None (tag mismatch)"""
        from cryptography.exceptions import InvalidTag

        try:
            return self.k.open(pn & 0xFFFFFFFFFFFFFFFF, ad, data)
        except InvalidTag:
            return None

    def apply(self, header, payload):
        pnl = (header[0] & 3) + 1
        off = len(header) - pnl
        sample = payload[4 - pnl : 4 - pnl + 16]
        mask = self.mask(sample)
        pkt = bytearray(header + payload)
        pkt[0] ^= mask[0] & (0x0F if pkt[0] & 0x80 else 0x1F)
        for i in range(pnl):
            pkt[off + i] ^= mask[1 + i]
        return bytes(pkt)

    def remove(self, packet, off):
        """(plain header, truncated pn)"""
        if off + 4 + 16 > len(packet):
            raise ValueError("packet too short for sample")
        mask = self.mask(packet[off + 4 : off + 20])
        first = packet[0] ^ (mask[0] & (0x0F if packet[0] & 0x80 else 0x1F))
        pnl = (first & 3) + 1
        pn_bytes = bytes(packet[off + i] ^ mask[1 + i] for i in range(pnl))
        return bytes([first]) + packet[1:off] + pn_bytes, int.from_bytes(pn_bytes, "big")


def ref_for_aead(cipher_name, key, iv):
    ent = _BY_AEAD.get(bytes(cipher_name))
    if ent is None or len(key) != ent[2] or len(iv) != 12:
        return None
    return Ref(ent[3], key=bytes(key), iv=bytes(iv))


def ref_for_hp(cipher_name, key):
    ent = _BY_HP.get(bytes(cipher_name))
    if ent is None or len(key) != ent[2]:
        return None
    return Ref(ent[3], hp=bytes(key))


# ------------------------------------------------------------------ contracts


def pre_encrypt(c, n):
    return n + c["AEAD_TAG_LENGTH"] <= c["PACKET_LENGTH_MAX"]


def pre_decrypt(c, n):
    return c["AEAD_TAG_LENGTH"] <= n <= c["PACKET_LENGTH_MAX"]


def pre_apply(c, header, payload):
    """None when the call is inside the contract, else the name of the broken clause"""
    if len(header) < 1:
        return "empty-header"
    pnl = (header[0] & 3) + 1
    if len(header) < pnl:
        return "header-shorter-than-pn"
    if len(header) + len(payload) > c["PACKET_LENGTH_MAX"]:
        return "header+payload>PACKET_LENGTH_MAX"
    if len(payload) < c["PACKET_NUMBER_LENGTH_MAX"] - pnl + c["SAMPLE_LENGTH"]:
        return "payload-shorter-than-sample"
    return None


def pre_remove(c, packet, off):
    if off < 0:
        return "negative-offset"
    if off + c["PACKET_NUMBER_LENGTH_MAX"] + c["SAMPLE_LENGTH"] > len(packet):
        return "sample-beyond-packet"
    if off + c["PACKET_NUMBER_LENGTH_MAX"] > c["PACKET_LENGTH_MAX"]:
        return "offset+4>PACKET_LENGTH_MAX"
    return None


class Contracts:
    """Installs checking proxies for the two C types in aioquic.quic.crypto and keeps a ledger.

    breaches: list of (signature, what) for calls *made by the library* that broke a
    precondition and were not rejected by the C code, or whose accepted in-contract result
    differs from the independent reference (state of the helper damaged)."""

    def __init__(self):
        self.calls = 0
        self.rejected = 0
        self.kat_ok = 0
        self.breaches = []
        self.max_encrypt = 0
        self.max_apply = 0
        self.max_remove_off = 0
        self.installed = False

    def install(self):
        import aioquic.quic.crypto as qc
        from aioquic._crypto import AEAD, CryptoError, HeaderProtection

        book = self
        c = constants()

        class CheckedAEAD:
            def __init__(self, cipher_name, key, iv):
                self._o = AEAD(cipher_name, key, iv)
                self._ref = ref_for_aead(cipher_name, key, iv)

            def encrypt(self, data, associated_data, packet_number):
                book.calls += 1
                book.max_encrypt = max(book.max_encrypt, len(data))
                ok = pre_encrypt(c, len(data))
                try:
                    out = self._o.encrypt(data, associated_data, packet_number)
                except CryptoError:
                    book.rejected += 1
                    raise
                if not ok:
                    book.breaches.append(("contract:AEAD.encrypt:data+tag>PACKET_LENGTH_MAX:accepted",
                                          "library called AEAD.encrypt with %d bytes (+%d tag > %d) and the C code did not reject it"
                                          % (len(data), c["AEAD_TAG_LENGTH"], c["PACKET_LENGTH_MAX"])))
                elif self._ref is not None:
                    if out != self._ref.seal(data, associated_data, packet_number):
                        book.breaches.append(("state:AEAD.encrypt:result-differs-from-reference",
                                              "in-contract AEAD.encrypt(%d bytes) result differs from the independent AEAD: key/iv fields damaged" % len(data)))
                    else:
                        book.kat_ok += 1
                return out

            def decrypt(self, data, associated_data, packet_number):
                book.calls += 1
                ok = pre_decrypt(c, len(data))
                try:
                    out = self._o.decrypt(data, associated_data, packet_number)
                except CryptoError:
                    book.rejected += 1
                    raise
                if not ok:
                    book.breaches.append(("contract:AEAD.decrypt:length-outside-[TAG,PACKET_LENGTH_MAX]:accepted",
                                          "library called AEAD.decrypt with %d bytes and the C code did not reject it" % len(data)))
                elif self._ref is not None:
                    if out != self._ref.open(data, associated_data, packet_number):
                        book.breaches.append(("state:AEAD.decrypt:result-differs-from-reference",
                                              "in-contract AEAD.decrypt(%d bytes) differs from the independent AEAD" % len(data)))
                    else:
                        book.kat_ok += 1
                return out

        class CheckedHP:
            def __init__(self, cipher_name, key):
                self._o = HeaderProtection(cipher_name, key)
                self._ref = ref_for_hp(cipher_name, key)

            def apply(self, plain_header, protected_payload):
                book.calls += 1
                book.max_apply = max(book.max_apply, len(plain_header) + len(protected_payload))
                bad = pre_apply(c, plain_header, protected_payload)
                try:
                    out = self._o.apply(plain_header, protected_payload)
                except CryptoError:
                    book.rejected += 1
                    raise
                if bad:
                    book.breaches.append(("contract:HeaderProtection.apply:%s:accepted" % bad,
                                          "library called HeaderProtection.apply(header=%d, payload=%d bytes): %s, not rejected by the C code"
                                          % (len(plain_header), len(protected_payload), bad)))
                elif self._ref is not None and len(plain_header) > (plain_header[0] & 3) + 1:
                    if out != self._ref.apply(plain_header, protected_payload):
                        book.breaches.append(("state:HeaderProtection.apply:result-differs-from-reference",
                                              "in-contract HeaderProtection.apply(%d+%d) differs from the independent implementation: mask/zero fields damaged"
                                              % (len(plain_header), len(protected_payload))))
                    else:
                        book.kat_ok += 1
                return out

            def remove(self, packet, encrypted_offset):
                book.calls += 1
                book.max_remove_off = max(book.max_remove_off, encrypted_offset)
                bad = pre_remove(c, packet, encrypted_offset)
                try:
                    out = self._o.remove(packet, encrypted_offset)
                except CryptoError:
                    book.rejected += 1
                    raise
                if bad:
                    book.breaches.append(("contract:HeaderProtection.remove:%s:accepted" % bad,
                                          "library called HeaderProtection.remove(packet=%d bytes, offset=%d): %s, not rejected by the C code"
                                          % (len(packet), encrypted_offset, bad)))
                elif self._ref is not None:
                    if (out[0], out[1] & 0xFFFFFFFF) != tuple(self._ref.remove(packet, encrypted_offset)):  # sign of a 4-byte pn is C02/C17's subject
                        book.breaches.append(("state:HeaderProtection.remove:result-differs-from-reference",
                                              "in-contract HeaderProtection.remove(%d, %d) differs from the independent implementation"
                                              % (len(packet), encrypted_offset)))
                    else:
                        book.kat_ok += 1
                return out

        qc.AEAD = CheckedAEAD
        qc.HeaderProtection = CheckedHP
        self.installed = True
        return self

    def drain(self):
        b, self.breaches = self.breaches, []
        return b


# ------------------------------------------------------------------ red zone probe (hook H1)


def redzone_probe() -> dict:
    """Ask the ASan runtime which bytes inside live AEAD / HeaderProtection objects are poisoned.
    {'asan': bool, 'aead': [(lo,hi)...], 'hp': [...]}: poisoned byte ranges relative to the object
    start (empty without hook H1)."""
    out = {"asan": False, "aead": [], "hp": []}
    try:
        lib = ctypes.CDLL(None)
        fn = lib.__asan_address_is_poisoned
    except (OSError, AttributeError):
        return out
    fn.restype = ctypes.c_int
    fn.argtypes = [ctypes.c_void_p]
    out["asan"] = True
    from aioquic._crypto import AEAD, HeaderProtection

    objs = {"aead": AEAD(b"aes-128-gcm", bytes(16), bytes(12)), "hp": HeaderProtection(b"aes-128-ecb", bytes(16))}
    for name, o in objs.items():
        base, n = id(o), o.__sizeof__()
        ranges = []
        lo = None
        for i in range(n):
            p = bool(fn(base + i))
            if p and lo is None:
                lo = i
            elif not p and lo is not None:
                ranges.append((lo, i))
                lo = None
        if lo is not None:
            ranges.append((lo, n))
        out[name] = ranges
    return out
