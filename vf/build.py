"""E1: stage a fresh build of /repo's *working tree* outside /repo and /verif.

stage(kind) copies src/aioquic/**/*.py and compiles the two C helpers from the
working tree's .c files.  Kinds:
  plain      gcc -O2, same macros as setup.py
  asan       clang -O1 -g -fsanitize=address,undefined  -DAIOQUIC_VERIF=1 (recover on)
  asan-halt  same with -fno-sanitize-recover=all

Every check imports aioquic from the staged copy; the prebuilt .so files under
/repo/src/aioquic are never used.
"""

from __future__ import annotations

import hashlib
import os
import shutil
import subprocess
import sys
import sysconfig
import tempfile

REPO = os.environ.get("VERIF_REPO", "/repo")
PYTHON = os.environ.get("VERIF_PYTHON", "/venv/bin/python")
GUARD = "AIOQUIC_VERIF"


def _py_include() -> str:
    out = subprocess.run(
        [PYTHON, "-c", "import sysconfig;print(sysconfig.get_paths()['include'])"],
        capture_output=True,
        text=True,
        check=True,
    )
    return out.stdout.strip().splitlines()[-1]


def asan_runtime() -> str:
    out = subprocess.run(
        ["clang", "-print-file-name=libclang_rt.asan-x86_64.so"],
        capture_output=True,
        text=True,
        check=True,
    )
    return out.stdout.strip()


def tree_digest(root: str) -> str:
    h = hashlib.sha256()
    for dirpath, dirnames, filenames in sorted(os.walk(root)):
        dirnames.sort()
        for fn in sorted(filenames):
            if fn.endswith((".py", ".c")):
                p = os.path.join(dirpath, fn)
                h.update(os.path.relpath(p, root).encode())
                with open(p, "rb") as f:
                    h.update(f.read())
    return h.hexdigest()[:16]


class BuildFailed(Exception):
    pass


def stage(kind: str = "plain") -> str:
    """Return a directory to put first on sys.path. Caller removes it (see unstage)."""
    src = os.path.join(REPO, "src", "aioquic")
    base = tempfile.mkdtemp(prefix="vf-stage-")
    dst = os.path.join(base, "aioquic")

    def ignore(d, names):
        return [n for n in names if n.endswith((".so", ".pyc")) or n == "__pycache__"]

    shutil.copytree(src, dst, ignore=ignore)
    inc = _py_include()
    common = ["-shared", "-fPIC", "-DPy_LIMITED_API=0x030A0000", "-I" + inc]
    if kind == "plain":
        cc = ["gcc", "-O2", "-std=c99"]
    elif kind in ("asan", "asan-halt"):
        cc = [
            "clang",
            "-O1",
            "-g",
            "-fno-omit-frame-pointer",
            "-std=c99",
            "-fsanitize=address,undefined",
            "-D%s=1" % GUARD,
        ]
        if kind == "asan-halt":
            cc.append("-fno-sanitize-recover=all")
        else:
            cc.append("-fsanitize-recover=address,undefined")
    else:
        raise ValueError(kind)
    for mod, libs in (("_buffer", []), ("_crypto", ["-lcrypto"])):
        cmd = (
            cc
            + common
            + [os.path.join(dst, mod + ".c"), "-o", os.path.join(dst, mod + ".abi3.so")]
            + libs
        )
        r = subprocess.run(cmd, capture_output=True, text=True)
        if r.returncode != 0:
            shutil.rmtree(base, ignore_errors=True)
            raise BuildFailed("compile %s failed:\n%s" % (mod, r.stderr[-4000:]))
    with open(os.path.join(base, "STAGE_INFO"), "w") as f:
        f.write("%s %s\n" % (kind, tree_digest(src)))
    return base


def unstage(base: str) -> None:
    if base and os.path.basename(base).startswith("vf-stage-"):
        shutil.rmtree(base, ignore_errors=True)


def child_env(stage_dir: str, kind: str, extra: dict | None = None) -> dict:
    env = dict(os.environ)
    verif_root = os.path.dirname(os.path.dirname(os.path.abspath(__file__)))
    deps = os.path.join(verif_root, ".deps")
    paths = [stage_dir, verif_root]
    if os.path.isdir(deps):
        paths.append(deps)
    env["PYTHONPATH"] = os.pathsep.join(paths)
    env["PYTHONHASHSEED"] = "0"
    env["PYTHONDONTWRITEBYTECODE"] = "1"
    env[GUARD] = "1"
    env["VF_STAGE"] = stage_dir
    if kind.startswith("asan"):
        env["LD_PRELOAD"] = asan_runtime()
        env["PYTHONMALLOC"] = "malloc"
        opts = "detect_leaks=0:allocator_may_return_null=1:handle_segv=1:quarantine_size_mb=1:thread_local_quarantine_size_kb=16:malloc_context_size=0:suppress_equal_pcs=0"
        if kind == "asan-halt":
            opts += ":halt_on_error=1:abort_on_error=1"
        else:
            opts += ":halt_on_error=0"
        env.setdefault("ASAN_OPTIONS", opts)
        env.setdefault("UBSAN_OPTIONS", "print_stacktrace=1:halt_on_error=0")
    if extra:
        env.update(extra)
    return env


if __name__ == "__main__":
    d = stage(sys.argv[1] if len(sys.argv) > 1 else "plain")
    print(d)
