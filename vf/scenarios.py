"""Seeded scenario generators shared by the simnet-based properties (C01, C02b, C06, C08b, C09, C12, C13, C20).

A scenario is a JSON-able dict {opts, fates, script, seed, lateness, horizon}; it fully determines a
SimNet run (given the tree under test).
"""

from __future__ import annotations

import random

WRITE_SIZES = [0, 1, 2, 1199, 1200, 1201, 3000, 10000, 40000]


def gen_config(rng: random.Random, small=False) -> dict:
    opts = {"cc": rng.choice(["reno", "cubic"])}
    v = rng.choice(["v1", "v2", "v1v2", "v2v1", "v1v2", "orig"])
    if v == "v1":
        opts["versions_client"] = ["v1"]
    elif v == "v2":
        opts["versions_client"] = ["v2"]
    elif v == "v1v2":
        opts["versions_client"] = ["v1", "v2"]
    elif v == "v2v1":
        opts["versions_client"] = ["v2", "v1"]
    else:
        opts["versions_client"] = ["v2", "v1"]
        opts["original_version"] = "v1"
    if rng.random() < 0.3:
        opts["versions_server"] = rng.choice([["v1", "v2"], ["v2", "v1"]])
    mds = rng.choice([1200, 1200, 1280, 1350, 1452])
    opts["mds_client"] = mds
    opts["mds_server"] = rng.choice([mds, 1200, 1452])
    # server front-end behaviour before a connection exists: Retry (address validation token) or Version Negotiation
    r = random.Random("frontend/%r" % (rng.random(),)).random()
    if r < 0.12:
        opts["retry"] = True
    elif r < 0.2:
        opts["frontend_vn"] = True
        opts["versions_client"] = ["v2", "v1"]
        opts["versions_server"] = ["v1"]
        opts.pop("original_version", None)
    return opts


def gen_fates(rng: random.Random, harsh=None) -> dict:
    harsh = rng.random() if harsh is None else harsh
    f = {
        "delay": rng.choice([0.005, 0.02, 0.02, 0.05]),
        "loss": rng.choice([0.0, 0.05, 0.05, 0.2, 0.5 if harsh > 0.8 else 0.2]),
        "dup": rng.choice([0.0, 0.1, 0.1, 0.5 if harsh > 0.7 else 0.1]),
        "reorder": rng.choice([0.0, 0.3, 0.6]),
        "adv_seconds": rng.choice([2.0, 4.0, 8.0, 20.0 if harsh > 0.9 else 6.0]),
        "adv_dgrams": rng.choice([150, 400, 1000]),
    }
    f["jitter"] = rng.choice([0.0, 1.0, 2.0, 4.0]) * 2 * f["delay"]
    if rng.random() < 0.25:
        lo = rng.random() * f["adv_seconds"] * 0.8
        f["blackouts"] = [[lo, lo + rng.choice([0.05, 0.3, 1.0, 3.0])]]
    if rng.random() < 0.2:
        f["rebind_after"] = rng.choice([3, 6, 10, 20, 40])
    return f


def stream_ids(rng, n):
    """n distinct (sid, initiator) among the four kinds, contiguous per kind (a sender must open in order)."""
    kinds = {"cb": 0, "cu": 2, "sb": 1, "su": 3}
    counts = {k: 0 for k in kinds}
    out = []
    for _ in range(n):
        k = rng.choice(list(kinds))
        sid = kinds[k] + 4 * counts[k]
        counts[k] += 1
        out.append((sid, "client" if k[0] == "c" else "server", k[1] == "u"))
    return out


def gen_script(rng: random.Random, adv_seconds: float, max_streams=12, budget_bytes=250000, allow_reset=True,
               allow_key_update=True, allow_stop=True, big=False) -> list:
    script = []
    n = rng.choice([1, 1, 2, 3, 5, 8, max_streams])
    T = max(0.5, adv_seconds * rng.choice([0.3, 0.8, 1.1]))
    remaining = budget_bytes
    for sid, initiator, uni in stream_ids(rng, n):
        writers = [initiator] if uni else rng.choice([[initiator], [initiator, "server" if initiator == "client" else "client"]])
        for w in writers:
            t = rng.random() * T * 0.6
            if w != initiator:
                t += 0.3  # answer after the stream exists (skipped by the driver if unknown by then)
            nwrites = rng.choice([1, 1, 2, 3, 6])
            ended = False
            for i in range(nwrites):
                size = rng.choice(WRITE_SIZES + ([200000] if big else []))
                size = min(size, max(remaining, 0))
                remaining -= size
                last = i == nwrites - 1
                fin = last and rng.random() < 0.8
                if size == 0 and not fin and rng.random() < 0.7:
                    size = 1
                script.append({"t": round(t, 4), "side": w, "op": "write", "sid": sid, "n": size, "fin": fin})
                ended = fin
                t += rng.choice([0.0, 0.001, 0.05, 0.4])
                if allow_reset and not last and rng.random() < 0.04:
                    script.append({"t": round(t, 4), "side": w, "op": "reset", "sid": sid, "code": rng.choice([0, 7, 2**62 - 1])})
                    ended = True
                    break
            if not ended and rng.random() < 0.5:
                # FIN-only after data
                script.append({"t": round(t + rng.choice([0.0, 0.2]), 4), "side": w, "op": "write", "sid": sid, "n": 0, "fin": True})
            if allow_stop and rng.random() < 0.03:
                r = "server" if w == "client" else "client"
                script.append({"t": round(t * rng.random() + 0.2, 4), "side": r, "op": "stop", "sid": sid, "code": 5})
    for uid in range(rng.choice([0, 1, 1, 3])):
        script.append({"t": round(rng.random() * T, 4), "side": rng.choice(["client", "server"]), "op": "ping", "uid": uid + 1})
    if allow_key_update:
        t = 0.4
        for _ in range(rng.choice([0, 0, 1, 2, 3])):
            t += rng.choice([0.0, 0.5, 1.0, 2.0])
            script.append({"t": round(t, 4), "side": rng.choice(["client", "server"]), "op": "key_update"})
    for _ in range(rng.choice([0, 0, 1, 2])):
        script.append({"t": round(0.5 + rng.random() * T, 4), "side": rng.choice(["client", "server"]), "op": "change_cid"})
    for uid in range(rng.choice([0, 0, 2])):
        script.append({"t": round(0.5 + rng.random() * T, 4), "side": rng.choice(["client", "server"]), "op": "dgram", "uid": uid, "n": rng.choice([1, 100, 1000])})
    script.sort(key=lambda o: o["t"])
    return script


def gen_scenario(seed, **kw) -> dict:
    rng = random.Random("scenario/%s" % seed)
    opts = gen_config(rng)
    fates = gen_fates(rng, kw.get("harsh"))
    script = gen_script(
        rng,
        fates["adv_seconds"],
        big=kw.get("big", False) or rng.random() < 0.08,
        allow_reset=kw.get("allow_reset", True),
        allow_key_update=kw.get("allow_key_update", True),
        allow_stop=kw.get("allow_stop", True),
    )
    r2 = random.Random("scenario-0rtt/%s" % seed)
    if r2.random() < 0.15:
        # session resumption: the client offers the ticket of an earlier (priming) connection and sends part of its
        # data as 0-RTT before the handshake completes
        opts["resume"] = {}
        if r2.random() < 0.3:
            opts["resume_forget"] = True  # the server no longer knows the ticket: 0-RTT rejected, full handshake
        for o in script:
            if o["side"] == "client" and o["op"] == "write" and r2.random() < 0.5:
                o["t"] = r2.choice([0.0, 0.0, 0.002])
        script.sort(key=lambda o: o["t"])
    return {"seed": seed, "opts": opts, "fates": fates, "script": script, "lateness": 0.0, "horizon": fates["adv_seconds"] + 150.0}


def scenario_signature(sc, fate_counts) -> tuple:
    """Bucketed (config, op-kind multiset, fate multiset)."""
    ops = {}
    for o in sc["script"]:
        ops[o["op"]] = ops.get(o["op"], 0) + 1

    def b(n):
        return 0 if n == 0 else 1 if n < 3 else 2 if n < 10 else 3 if n < 50 else 4

    return (
        sc["opts"].get("cc"),
        tuple(sc["opts"].get("versions_client", [])),
        sc["opts"].get("mds_client"),
        tuple(sorted((k, b(v)) for k, v in ops.items())),
        tuple(sorted((k, b(v)) for k, v in fate_counts.items())),
    )
