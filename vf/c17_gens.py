"""C17 — value generators (reference value model; no aioquic imports)."""

from __future__ import annotations

import itertools

from . import c17_refcodec as R

VARINT_K = (6, 14, 30, 62)
VARINT_BOUNDARY = sorted({0, 1} | {(1 << k) + d for k in VARINT_K for d in (-1, 0, 1)})
# values outside the varint domain: an encoder that returns must still have represented them
VARINT_OUTSIDE = [-1, -2, -(1 << 62), (1 << 63), (1 << 64) - 1, 1 << 64, (1 << 64) + 1, (1 << 64) + 5,
                  -(1 << 64) + 7, 1 << 70, 1 << 200]
VARINT_EDGE_VALUES = [v for v in VARINT_BOUNDARY if 0 <= v <= R.VARINT_MAX]


def fixed_boundary(bits):
    mx = (1 << bits) - 1
    return [0, 1, mx - 1, mx, mx + 1, mx + 2, -1, -2, -mx, -mx - 1, 1 << (bits + 3), (1 << (bits + 8)) + 0x5A, 1 << 200]


def rbytes(rng, n):
    return rng.getrandbits(8 * n).to_bytes(n, "big") if n else b""


def rascii(rng, n):
    return bytes(rng.choice(b"abcdefghijklmnopqrstuvwxyz0123456789-./") for _ in range(n))


def rvarint(rng):
    c = rng.random()
    if c < 0.35:
        return rng.choice(VARINT_EDGE_VALUES)
    if c < 0.5:
        return rng.getrandbits(rng.choice((6, 14, 30, 62)))
    return rng.getrandbits(62)


# ------------------------------------------------------------------ ACK


def subset_ranges(mask, base=0, universe=12):
    out = []
    i = 0
    while i < universe:
        if mask >> i & 1:
            j = i
            while j + 1 < universe and mask >> (j + 1) & 1:
                j += 1
            out.append((base + i, base + j))
            i = j + 1
        else:
            i += 1
    return out


ACK_DELAYS = [0, 1, 63, 64, 16383, 16384, (1 << 30) - 1, 1 << 30, (1 << 62) - 1]
ACK_GAPS = [1, 2, 62, 63, 64, 65, 66, 16383, 16384, 16385, 16386, (1 << 30) - 1, 1 << 30, (1 << 30) + 1, (1 << 30) + 2]


def random_ranges(rng):
    """ascending inclusive ranges over 0..2^62-1 with boundary-biased gaps and lengths"""
    n = rng.choice((1, 1, 2, 3, 5, 8, 20, 50, 300) if rng.random() < 0.9 else (600,))
    top = rng.choice(((1 << 62) - 1, (1 << 62) - 1 - rng.randrange(100), rng.getrandbits(62), rng.getrandbits(40),
                      rng.getrandbits(16), rng.randrange(200)))
    out = []
    hi = top
    for _ in range(n):
        c = rng.random()
        ln = rng.choice((0, 0, 1, 62, 63, 64, 16383, 16384)) if c < 0.6 else rng.getrandbits(rng.choice((3, 10, 31, 61)))
        lo = hi - ln
        if lo < 0:
            lo = 0
        out.append((lo, hi))
        c = rng.random()
        if c < 0.6:
            gap = rng.choice(ACK_GAPS)  # distance between lo of this and hi of the next, >= 2 means a real gap
        elif c < 0.8:
            gap = rng.getrandbits(rng.choice((4, 20, 45, 61)))
        else:
            gap = max(2, lo // 2)  # extreme
        hi = lo - max(2, gap)
        if hi < 0:
            break
    out.reverse()
    return out


# ------------------------------------------------------------------ transport parameters

TP_NAMES = [name for _, (name, _) in sorted(R.TP.items())]
TP_KIND = {name: kind for _, (name, kind) in R.TP.items()}
TP_INT_VALUES = [0, 1, 63, 64, 16383, 16384, (1 << 30) - 1, 1 << 30, (1 << 62) - 1]


def gen_preferred_address(rng, variant=None):
    variant = rng.randrange(4) if variant is None else variant
    a4 = (rbytes(rng, 3) + b"\x01", rng.choice((0, 1, 443, 65535))) if variant in (0, 2) else None
    a6 = (b"\x20\x01" + rbytes(rng, 14), rng.choice((0, 1, 4433, 65535))) if variant in (1, 2) else None
    return {"ipv4": a4, "ipv6": a6, "connection_id": rbytes(rng, rng.choice((0, 1, 8, 20, 20))),
            "stateless_reset_token": rbytes(rng, 16)}


def gen_version_information(rng, n=None):
    n = rng.randrange(9) if n is None else n
    pool = [R.V1, R.V2, 0xFF00001D, 0x1A2A3A4A, 0xFFFFFFFF, 2, 0x0A0A0A0A]
    return {"chosen_version": rng.choice(pool), "available_versions": [rng.choice(pool) for _ in range(n)]}


def gen_tp_value(rng, name, pick=None):
    kind = TP_KIND[name]
    if kind == "int":
        return pick if pick is not None else (rng.choice(TP_INT_VALUES) if rng.random() < 0.7 else rng.getrandbits(62))
    if kind == "bytes":
        if name == "stateless_reset_token":
            return rbytes(rng, 16)
        return rbytes(rng, rng.choice((0, 1, 8, 19, 20)) if name != "quantum_readiness" else rng.choice((0, 1, 1200)))
    if kind == "flag":
        return True
    if kind == "preferred_address":
        return gen_preferred_address(rng)
    return gen_version_information(rng)


def tp_singletons(rng):
    """each parameter alone at its boundary values"""
    for name in TP_NAMES:
        kind = TP_KIND[name]
        if kind == "int":
            for v in TP_INT_VALUES:
                yield "single:%s:%d" % (name, v), {name: v}
        elif kind == "bytes":
            for n in ((16,) if name == "stateless_reset_token" else (0, 1, 20, 255, 1200)):
                yield "single:%s:len%d" % (name, n), {name: rbytes(rng, n)}
        elif kind == "flag":
            yield "single:%s" % name, {name: True}
        elif kind == "preferred_address":
            for variant in range(4):
                for cl in (0, 1, 20, 255):
                    pa = gen_preferred_address(rng, variant)
                    pa["connection_id"] = rbytes(rng, cl)
                    yield "single:preferred_address:%d:cid%d" % (variant, cl), {name: pa}
        else:
            for n in range(9):
                yield "single:version_information:%d" % n, {name: gen_version_information(rng, n)}
    yield "empty", {}


def tp_random(rng):
    c = rng.random()
    p = 1.0 if c < 0.05 else rng.random()
    v = {}
    for name in TP_NAMES:
        if rng.random() < p:
            v[name] = gen_tp_value(rng, name)
    mask = sum(1 << i for i, n in enumerate(TP_NAMES) if n in v)
    return "mask:%05x" % mask, v


# ------------------------------------------------------------------ TLS messages

UNKNOWN_EXT_TYPES = [1, 5, 11, 21, 27, 35, 44, 47, 57, 0x0A0A, 0xFFA5, 0xFF01, 0xFFFF, 65445, 12345]
GROUPS = [0x0017, 0x0018, 0x0019, 0x001D, 0x001E, 0xAAAA, 0, 0xFFFF]
SIGALGS = [0x0403, 0x0503, 0x0603, 0x0807, 0x0808, 0x0401, 0x0804, 0x0809, 0x0201, 0, 0xFFFF]
SUITES = [0x1301, 0x1302, 0x1303, 0x00FF, 0, 0xFFFF, 0xC02F]
VERSIONS = [0x0304, 0x0303, 0x7F1C, 0x0A0A, 0, 0xFFFF]
U32 = [0, 1, 0xFFFF, 0x10000, 0xFFFFFFFF, 604800]
U16 = [0, 1, 255, 256, 0xFFFF]


def _u16_list(rng, pool, size):
    n = {"empty": 0, "one": 1, "some": rng.randrange(2, 9), "max": 32767}[size]
    return [rng.choice(pool) if rng.random() < 0.8 else rng.getrandbits(16) for _ in range(n)]


def _size(rng, allow_max):
    c = rng.random()
    if allow_max and c < 0.04:
        return "max"
    return "empty" if c < 0.15 else "one" if c < 0.4 else "some"


def gen_other_extensions(rng, n, msg):
    modelled = set(R.MODELLED.get(msg, ()))
    out = []
    for _ in range(n):
        t = rng.choice(UNKNOWN_EXT_TYPES) if rng.random() < 0.8 else rng.getrandbits(16)
        if t in modelled or t in (41,) or any(t == x for x, _ in out):
            continue
        out.append((t, rbytes(rng, rng.choice((0, 1, 2, 4, 17, 300)))))
    return out


def gen_key_share_entry(rng, big=False):
    return (rng.choice(GROUPS), rbytes(rng, 60000 if big else rng.choice((1, 32, 56, 65, 97, 133))))


def gen_tls(msg, rng, pattern, nother):
    """pattern: tuple of bools for the message's optional modelled extensions (see TLS_OPTIONAL).
    Returns (signature, value)."""
    sizes = []
    big = rng.random() < 0.06  # at most one maximal field per value: blocks are limited to 65535 bytes
    bigfield = rng.randrange(8) if big else -1

    def size(k):
        s = "max" if k == bigfield else _size(rng, False)
        sizes.append(s[0])
        return s

    oth = gen_other_extensions(rng, nother, msg)
    if msg == "client_hello":
        alpn, early, psk, modes, sni = pattern
        v = {
            "random": rbytes(rng, 32),
            "legacy_session_id": rbytes(rng, rng.choice((0, 0, 32, 1, 255))),
            "cipher_suites": _u16_list(rng, SUITES, size(0)),
            "legacy_compression_methods": [rng.choice((0, 1, 255)) for _ in range(rng.choice((0, 1, 1, 2, 255)))],
        }
        s = size(1)
        v["key_share"] = ([gen_key_share_entry(rng, True)] if s == "max" else
                          [gen_key_share_entry(rng) for _ in range({"empty": 0, "one": 1, "some": 3}[s])])
        s = size(2)
        v["supported_versions"] = [rng.choice(VERSIONS) for _ in range({"empty": 0, "one": 1, "some": 3, "max": 127}[s])]
        v["signature_algorithms"] = _u16_list(rng, SIGALGS, size(3))
        v["supported_groups"] = _u16_list(rng, GROUPS, size(4))
        v["psk_key_exchange_modes"] = None
        if modes:
            s = size(5)
            v["psk_key_exchange_modes"] = [rng.choice((0, 1, 255)) for _ in range({"empty": 0, "one": 1, "some": 2, "max": 255}[s])]
        v["server_name"] = None
        if sni:
            s = size(6)
            v["server_name"] = rascii(rng, {"empty": 0, "one": 1, "some": rng.randrange(2, 64), "max": 65530}[s])
        v["alpn_protocols"] = None
        if alpn:
            s = size(7)
            v["alpn_protocols"] = ([rascii(rng, 255) for _ in range(200)] if s == "max" else
                                   [rascii(rng, rng.choice((1, 2, 5, 255))) for _ in range({"empty": 0, "one": 1, "some": 4}[s])])
        v["early_data"] = bool(early)
        v["pre_shared_key"] = None
        if psk:
            n = rng.choice((0, 1, 1, 2, 5))
            v["pre_shared_key"] = {
                "identities": [(rbytes(rng, rng.choice((0, 1, 16, 200))), rng.choice(U32)) for _ in range(n)],
                "binders": [rbytes(rng, rng.choice((0, 32, 48, 255))) for _ in range(rng.choice((n, n, 0, n + 1)))],
            }
        v["other_extensions"] = oth
    elif msg == "server_hello":
        sv, ks, psk = pattern
        v = {"random": rbytes(rng, 32), "legacy_session_id": rbytes(rng, rng.choice((0, 32, 1, 255))),
             "cipher_suite": rng.choice(SUITES), "compression_method": rng.choice((0, 1, 255)),
             "supported_version": rng.choice(VERSIONS) if sv else None,
             "key_share": gen_key_share_entry(rng, bigfield == 0) if ks else None,
             "pre_shared_key": rng.choice(U16) if psk else None, "other_extensions": oth}
    elif msg == "encrypted_extensions":
        alpn, early = pattern
        v = {"alpn_protocol": rascii(rng, rng.choice((0, 1, 2, 5, 255))) if alpn else None,
             "early_data": bool(early), "other_extensions": oth}
    elif msg == "certificate_request":
        v = {"request_context": rbytes(rng, rng.choice((0, 0, 1, 8, 255))),
             "signature_algorithms": _u16_list(rng, SIGALGS, size(0)), "other_extensions": oth}
    elif msg == "certificate":
        n = rng.choice((0, 1, 1, 2, 3, 12))
        v = {"request_context": rbytes(rng, rng.choice((0, 0, 1, 255))),
             "certificates": [(rbytes(rng, 70000 if (big and i == 0) else rng.choice((0, 1, 300, 1200))),
                               rbytes(rng, rng.choice((0, 0, 4, 65535 if (big and i == 1) else 9)))) for i in range(n)]}
        sizes.append(str(n))
    elif msg == "certificate_verify":
        v = {"algorithm": rng.choice(SIGALGS), "signature": rbytes(rng, 65535 if big else rng.choice((0, 1, 64, 71, 256, 512)))}
    elif msg == "finished":
        v = {"verify_data": rbytes(rng, 70000 if big else rng.choice((0, 1, 32, 48, 64)))}
    elif msg == "new_session_ticket":
        (early,) = pattern
        v = {"ticket_lifetime": rng.choice(U32), "ticket_age_add": rng.choice(U32) if rng.random() < 0.5 else rng.getrandbits(32),
             "ticket_nonce": rbytes(rng, rng.choice((0, 1, 8, 255))),
             "ticket": rbytes(rng, 65535 if bigfield == 0 else rng.choice((0, 1, 32, 300))),
             "max_early_data_size": rng.choice(U32) if early else None, "other_extensions": oth}
    else:
        raise AssertionError(msg)
    sig = "%s:%s:o%d:%s%s" % (msg, "".join("1" if p else "0" for p in pattern), len(oth), "".join(sizes), "B" if big else "")
    return sig, v


TLS_OPTIONAL = {"client_hello": 5, "server_hello": 3, "encrypted_extensions": 2, "certificate_request": 0,
                "certificate": 0, "certificate_verify": 0, "finished": 0, "new_session_ticket": 1}


def tls_patterns(msg):
    """every present/absent combination of the optional modelled extensions x {0,1,3} unknown extensions"""
    has_ext = msg in R.MODELLED
    for pat in itertools.product((False, True), repeat=TLS_OPTIONAL[msg]):
        for nother in ((0, 1, 3) if has_ext else (0,)):
            yield pat, nother


def small_tls(msg, rng):
    """a small valid message for the bytes->values mutations (every optional extension likely present)"""
    pats = list(tls_patterns(msg))
    for _ in range(50):
        pat, nother = rng.choice(pats) if rng.random() < 0.5 else pats[-1]
        sig, v = gen_tls(msg, rng, pat, nother)
        if "B" not in sig and "m" not in sig.split(":")[-1]:
            return sig, v
    return sig, v
