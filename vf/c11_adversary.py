"""C11 adversary: a key-holding rogue TLS 1.3 peer written from RFC 8446 (no aioquic code).

* key schedule from hmac/hashlib (vf.refcrypto HKDF helpers), running transcript hash of the bytes
  the adversary itself sent/received, Finished MACs / PSK binders / CertificateVerify signatures
  recomputed over *that* transcript;
* byte-level builders for every handshake message type (and opaque bodies for unknown types);
* `RogueServer` (talks to a client victim) and `RogueClient` (talks to a server victim).

Key modes
  auth  : adversary holds the authentic server key (vf/certs/ssl_key.pem) and sends the authentic chain
  own   : adversary holds only its own P-256 key, sends its own self-signed certificate for "localhost"
  steal : adversary sends the authentic (public) certificate but can only sign with its own key
"""

from __future__ import annotations

import datetime
import hashlib
import hmac
import os
import zlib

from cryptography import x509
from cryptography.hazmat.primitives import hashes, serialization
from cryptography.hazmat.primitives.asymmetric import ec, padding, rsa, x25519

from .refcrypto import hkdf_expand_label, hkdf_extract

CERTS = os.path.join(os.path.dirname(os.path.abspath(__file__)), "certs")

SUITE_HASH = {0x1301: "sha256", 0x1302: "sha384", 0x1303: "sha256"}

CH, SH, NST, EOED, EE, CERT, CR, CV, FIN, KU, CCERT, MH = 1, 2, 4, 5, 8, 11, 13, 15, 20, 24, 25, 254
TYPE_NAMES = {
    CH: "CLIENT_HELLO", SH: "SERVER_HELLO", NST: "NEW_SESSION_TICKET", EOED: "END_OF_EARLY_DATA",
    EE: "ENCRYPTED_EXTENSIONS", CERT: "CERTIFICATE", CR: "CERTIFICATE_REQUEST", CV: "CERTIFICATE_VERIFY",
    FIN: "FINISHED", KU: "KEY_UPDATE", CCERT: "COMPRESSED_CERTIFICATE", MH: "MESSAGE_HASH",
}

G_X25519, G_P256 = 0x001D, 0x0017
SIG_ECDSA_P256, SIG_RSA_PSS_SHA256 = 0x0403, 0x0804

SERVER_CV_CTX = b"TLS 1.3, server CertificateVerify"
CLIENT_CV_CTX = b"TLS 1.3, client CertificateVerify"


def type_name(t: int) -> str:
    return TYPE_NAMES.get(t, "TYPE_%d" % t)


# ------------------------------------------------------------------ encoding helpers


def vec(n: int, b: bytes) -> bytes:
    return len(b).to_bytes(n, "big") + b


def hs_msg(t: int, body: bytes) -> bytes:
    return bytes([t]) + len(body).to_bytes(3, "big") + body


def ext(t: int, body: bytes) -> bytes:
    return t.to_bytes(2, "big") + vec(2, body)


def split_messages(data: bytes) -> list[bytes]:
    out = []
    p = 0
    while p < len(data):
        if p + 4 > len(data):
            raise ValueError("truncated handshake header")
        ln = int.from_bytes(data[p + 1 : p + 4], "big")
        if p + 4 + ln > len(data):
            raise ValueError("truncated handshake message")
        out.append(data[p : p + 4 + ln])
        p += 4 + ln
    return out


class _R:
    def __init__(self, d: bytes, p: int = 0):
        self.d, self.p = d, p

    def take(self, n: int) -> bytes:
        if self.p + n > len(self.d):
            raise ValueError("short read")
        b = self.d[self.p : self.p + n]
        self.p += n
        return b

    def u(self, n: int) -> int:
        return int.from_bytes(self.take(n), "big")

    def vec(self, n: int) -> bytes:
        return self.take(self.u(n))

    def eof(self) -> bool:
        return self.p >= len(self.d)


def parse_extensions(b: bytes) -> list[tuple[int, bytes, int]]:
    """[(type, body, offset_of_body_in_b)]"""
    r = _R(b)
    out = []
    while not r.eof():
        t = r.u(2)
        ln = r.u(2)
        off = r.p
        out.append((t, r.take(ln), off))
    return out


def parse_client_hello(msg: bytes) -> dict:
    assert msg[0] == CH
    r = _R(msg, 4)
    d = {"raw": msg}
    d["legacy_version"] = r.u(2)
    d["random"] = r.take(32)
    d["session_id"] = r.vec(1)
    cs = r.vec(2)
    d["cipher_suites"] = [int.from_bytes(cs[i : i + 2], "big") for i in range(0, len(cs), 2)]
    d["compression"] = list(r.vec(1))
    ext_len = r.u(2)
    ext_start = r.p
    exts = parse_extensions(r.take(ext_len))
    d["extensions"] = [(t, b) for t, b, _ in exts]
    d["key_shares"] = {}
    d["psk"] = None
    d["early_data"] = False
    d["alpn"] = None
    d["psk_modes"] = None
    for t, b, off in exts:
        if t == 51:
            rr = _R(b)
            lst = _R(rr.vec(2))
            while not lst.eof():
                g = lst.u(2)
                d["key_shares"][g] = lst.vec(2)
        elif t == 41:
            rr = _R(b)
            ids = _R(rr.vec(2))
            identities = []
            while not ids.eof():
                identities.append((ids.vec(2), ids.u(4)))
            binders_off = ext_start + off + rr.p  # offset (in msg) of the binders<2> vector
            bl = _R(rr.vec(2))
            binders = []
            while not bl.eof():
                binders.append(bl.vec(1))
            d["psk"] = {"identities": identities, "binders": binders, "truncated": msg[:binders_off]}
        elif t == 42:
            d["early_data"] = True
        elif t == 45:
            d["psk_modes"] = list(_R(b).vec(1))
        elif t == 16:
            lst = _R(_R(b).vec(2))
            d["alpn"] = []
            while not lst.eof():
                d["alpn"].append(lst.vec(1))
    return d


def parse_server_hello(msg: bytes) -> dict:
    assert msg[0] == SH
    r = _R(msg, 4)
    d = {"raw": msg}
    d["legacy_version"] = r.u(2)
    d["random"] = r.take(32)
    d["session_id"] = r.vec(1)
    d["cipher_suite"] = r.u(2)
    d["compression"] = r.u(1)
    d["key_share"] = None
    d["psk_index"] = None
    d["version"] = None
    for t, b, _ in parse_extensions(r.vec(2)):
        if t == 51:
            rr = _R(b)
            d["key_share"] = (rr.u(2), rr.vec(2))
        elif t == 41:
            d["psk_index"] = int.from_bytes(b, "big")
        elif t == 43:
            d["version"] = int.from_bytes(b, "big")
    return d


# ------------------------------------------------------------------ key schedule (RFC 8446 7.1)


class Schedule:
    def __init__(self, suite: int, psk: bytes | None = None):
        self.suite = suite
        self.hn = SUITE_HASH[suite]
        self.hl = hashlib.new(self.hn).digest_size
        self.zeros = bytes(self.hl)
        self.empty_hash = hashlib.new(self.hn).digest()
        self.early = hkdf_extract(self.hn, self.zeros, psk if psk is not None else self.zeros)
        self.th = hashlib.new(self.hn)  # running transcript
        self.hs_secret = None
        self.master = None
        self.c_hs = self.s_hs = self.c_ap = self.s_ap = None

    def add(self, data: bytes) -> None:
        self.th.update(data)

    def thash(self) -> bytes:
        return self.th.copy().digest()

    def checkpoint(self):
        return self.th.copy()

    def restore(self, cp) -> None:
        self.th = cp.copy()

    def derive(self, secret: bytes, label: bytes, ctx_hash: bytes) -> bytes:
        return hkdf_expand_label(self.hn, secret, label, ctx_hash, self.hl)

    def binder(self, truncated_hello: bytes) -> bytes:
        binder_key = self.derive(self.early, b"res binder", self.empty_hash)
        return self.mac(binder_key, hashlib.new(self.hn, truncated_hello).digest())

    def early_traffic(self) -> bytes:
        """client_early_traffic_secret; transcript must be exactly ClientHello"""
        return self.derive(self.early, b"c e traffic", self.thash())

    def set_ecdhe(self, shared: bytes) -> None:
        """call when the transcript is ClientHello..ServerHello"""
        self.hs_secret = hkdf_extract(self.hn, self.derive(self.early, b"derived", self.empty_hash), shared)
        h = self.thash()
        self.c_hs = self.derive(self.hs_secret, b"c hs traffic", h)
        self.s_hs = self.derive(self.hs_secret, b"s hs traffic", h)
        self.master = hkdf_extract(self.hn, self.derive(self.hs_secret, b"derived", self.empty_hash), self.zeros)

    def set_app(self) -> None:
        """call when the transcript is ClientHello..server Finished"""
        h = self.thash()
        self.c_ap = self.derive(self.master, b"c ap traffic", h)
        self.s_ap = self.derive(self.master, b"s ap traffic", h)

    def app_secrets_now(self):
        h = self.thash()
        return self.derive(self.master, b"c ap traffic", h), self.derive(self.master, b"s ap traffic", h)

    def mac(self, base_key: bytes, over_hash: bytes) -> bytes:
        fk = hkdf_expand_label(self.hn, base_key, b"finished", b"", self.hl)
        return hmac.new(fk, over_hash, self.hn).digest()

    def finished(self, base_key: bytes) -> bytes:
        return self.mac(base_key, self.thash())


# ------------------------------------------------------------------ certificates / keys

_cache: dict = {}


def authentic():
    """(leaf DER list, private key) of the authentic server identity"""
    if "auth" not in _cache:
        with open(os.path.join(CERTS, "ssl_cert.pem"), "rb") as f:
            certs = x509.load_pem_x509_certificates(f.read())
        with open(os.path.join(CERTS, "ssl_key.pem"), "rb") as f:
            key = serialization.load_pem_private_key(f.read(), password=None)
        _cache["auth"] = ([c.public_bytes(serialization.Encoding.DER) for c in certs], key, certs)
    return _cache["auth"]


def own_identity(name: str = "localhost"):
    """self-signed P-256 certificate for `name` (correct name, untrusted issuer)"""
    k = "own:" + name
    if k not in _cache:
        key = ec.generate_private_key(ec.SECP256R1())
        subject = x509.Name([x509.NameAttribute(x509.NameOID.COMMON_NAME, name)])
        now = datetime.datetime.now(datetime.timezone.utc)
        cert = (
            x509.CertificateBuilder()
            .subject_name(subject)
            .issuer_name(subject)
            .public_key(key.public_key())
            .serial_number(x509.random_serial_number())
            .not_valid_before(now - datetime.timedelta(days=1))
            .not_valid_after(now + datetime.timedelta(days=10))
            .add_extension(x509.SubjectAlternativeName([x509.DNSName(name)]), critical=False)
            .sign(key, hashes.SHA256())
        )
        _cache[k] = ([cert.public_bytes(serialization.Encoding.DER)], key, [cert])
    return _cache[k]


def sign(key, data: bytes) -> tuple[int, bytes]:
    if isinstance(key, rsa.RSAPrivateKey):
        return SIG_RSA_PSS_SHA256, key.sign(
            data, padding.PSS(mgf=padding.MGF1(hashes.SHA256()), salt_length=32), hashes.SHA256()
        )
    return SIG_ECDSA_P256, key.sign(data, ec.ECDSA(hashes.SHA256()))


class Identity:
    """What the adversary sends as Certificate and what it can sign with."""

    def __init__(self, key_mode: str):
        self.key_mode = key_mode
        if key_mode == "auth":
            self.chain, self.key, _ = authentic()
            self.cert_is_authentic = True
        elif key_mode == "own":
            self.chain, self.key, _ = own_identity()
            self.cert_is_authentic = False
        elif key_mode == "steal":
            self.chain = authentic()[0]
            self.key = own_identity()[1]
            self.cert_is_authentic = True
        else:
            raise ValueError(key_mode)
        # does the signing key match the leaf that is sent?
        self.key_matches_cert = key_mode in ("auth", "own")


# ------------------------------------------------------------------ message bodies shared by both roles


def body_certificate(chain: list[bytes], context: bytes = b"") -> bytes:
    entries = b"".join(vec(3, der) + vec(2, b"") for der in chain)
    return vec(1, context) + vec(3, entries)


def body_certificate_request(context: bytes = b"") -> bytes:
    algs = b"".join(a.to_bytes(2, "big") for a in (SIG_ECDSA_P256, SIG_RSA_PSS_SHA256, 0x0401, 0x0807))
    return vec(1, context) + vec(2, ext(13, vec(2, algs)))


def body_certificate_verify(alg: int, sig: bytes) -> bytes:
    return alg.to_bytes(2, "big") + vec(2, sig)


def body_new_session_ticket(ticket: bytes = b"c11-nst", nonce: bytes = b"", lifetime: int = 3600, early: bool = False) -> bytes:
    exts = ext(42, (0xFFFFFFFF).to_bytes(4, "big")) if early else b""
    return lifetime.to_bytes(4, "big") + (0).to_bytes(4, "big") + vec(1, nonce) + vec(2, ticket) + vec(2, exts)


def opaque_body(t: int, variant: int) -> bytes:
    """body for a handshake type the adversary knows no grammar for"""
    if variant == 0:
        return b""
    return bytes((t * 7 + i * 13 + variant) & 0xFF for i in range(4 + (t % 5)))


FIN_VARIANTS = ("badmac", "empty", "trunc", "trunc1", "long")


def mangle_verify_data(vd: bytes, variant: str) -> bytes:
    """ok | badmac (last bit flipped) | empty | trunc (first half) | trunc1 (all but the last byte) | long (+1 byte)"""
    if variant == "badmac":
        return vd[:-1] + bytes([vd[-1] ^ 1])
    if variant == "empty":
        return b""
    if variant == "trunc":
        return vd[: len(vd) // 2]
    if variant == "trunc1":
        return vd[:-1]
    if variant == "long":
        return vd + b"\x00"
    return vd


class _Peer:
    """transcript handling common to both roles"""

    sched: Schedule

    def emit(self, msg: bytes) -> bytes:
        """record a message the adversary sends in its transcript"""
        self.sched.add(msg)
        self.sent.append(msg[0])
        return msg


# ------------------------------------------------------------------ rogue server


class RogueServer(_Peer):
    def __init__(self, key_mode: str = "auth", suite: int = 0x1301, group: int = G_X25519,
                 psk: bytes | None = None, ee_extensions: bytes = b"", alpn: bytes | None = None):
        self.ident = Identity(key_mode)
        self.suite = suite
        self.group = group
        self.psk = psk  # the PSK this server "issued" (None: it knows none)
        self.ee_extensions = ee_extensions
        self.alpn = alpn
        self.sent: list[int] = []
        self.ch = None
        self.sched = None
        self.sh_bytes = None
        self.binder_ok = None

    # -- ClientHello from the victim
    def recv_client_hello(self, data: bytes) -> None:
        msgs = split_messages(data)
        if len(msgs) != 1 or msgs[0][0] != CH:
            raise RuntimeError("victim did not emit exactly one ClientHello")
        self.ch = parse_client_hello(msgs[0])

    # -- ServerHello
    def server_hello(self, psk_index: int | None = None, seed_with_psk: bool = False,
                     suite: int | None = None) -> bytes:
        """psk_index: value of the pre_shared_key extension (None = absent);
        seed_with_psk: derive the early secret from self.psk (else from zeros)"""
        if suite is not None:
            self.suite = suite
        self.sched = Schedule(self.suite, self.psk if seed_with_psk else None)
        if seed_with_psk and self.ch["psk"] is not None:
            want = self.sched.binder(self.ch["psk"]["truncated"])
            self.binder_ok = want == self.ch["psk"]["binders"][0]
        self.sched.add(self.ch["raw"])
        if self.group == G_X25519:
            priv = x25519.X25519PrivateKey.generate()
            pub = priv.public_key().public_bytes(serialization.Encoding.Raw, serialization.PublicFormat.Raw)
            shared = priv.exchange(x25519.X25519PublicKey.from_public_bytes(self.ch["key_shares"][G_X25519]))
        else:
            priv = ec.generate_private_key(ec.SECP256R1())
            pub = priv.public_key().public_bytes(serialization.Encoding.X962, serialization.PublicFormat.UncompressedPoint)
            peer = ec.EllipticCurvePublicKey.from_encoded_point(ec.SECP256R1(), self.ch["key_shares"][G_P256])
            shared = priv.exchange(ec.ECDH(), peer)
        exts = ext(43, (0x0304).to_bytes(2, "big")) + ext(51, self.group.to_bytes(2, "big") + vec(2, pub))
        if psk_index is not None:
            exts += ext(41, psk_index.to_bytes(2, "big"))
        body = (
            (0x0303).to_bytes(2, "big") + os.urandom(32) + vec(1, self.ch["session_id"])
            + self.suite.to_bytes(2, "big") + b"\x00" + vec(2, exts)
        )
        msg = hs_msg(SH, body)
        self.sh_bytes = msg
        self.emit(msg)
        self.sched.set_ecdhe(shared)
        return msg

    # -- flight messages (each call appends to the adversary's transcript)
    def encrypted_extensions(self, variant: str = "ok") -> bytes:
        """variants: ok | early (+early_data indication) | early_alpn (+early_data, +ALPN even if not negotiated) |
        unknown (+an extension nobody asked for)"""
        exts = b""
        if self.alpn is not None or variant == "early_alpn":
            exts += ext(16, vec(2, vec(1, self.alpn or b"vf")))
        exts += self.ee_extensions
        if variant in ("early", "early_alpn"):
            exts += ext(42, b"")
        if variant == "unknown":
            exts += ext(0xFACE, b"\x01\x02\x03")
        return self.emit(hs_msg(EE, vec(2, exts)))

    def certificate_request(self) -> bytes:
        return self.emit(hs_msg(CR, body_certificate_request()))

    def certificate(self, empty: bool = False) -> bytes:
        return self.emit(hs_msg(CERT, body_certificate([] if empty else self.ident.chain)))

    def certificate_verify(self, variant: str = "ok") -> bytes:
        data = b" " * 64 + SERVER_CV_CTX + b"\x00" + self.sched.thash()
        if variant == "stale":  # signature over a different transcript
            data = b" " * 64 + SERVER_CV_CTX + b"\x00" + hashlib.new(self.sched.hn, b"other").digest()
        alg, sig = sign(self.ident.key, data)
        if variant == "badsig":
            sig = sig[:-1] + bytes([sig[-1] ^ 1])
        return self.emit(hs_msg(CV, body_certificate_verify(alg, sig)))

    def finished(self, variant: str = "ok") -> bytes:
        vd = mangle_verify_data(self.sched.finished(self.sched.s_hs), variant)
        msg = self.emit(hs_msg(FIN, vd))
        self.sched.set_app()
        return msg

    def client_finished_expected(self, client_flight_before_fin: bytes = b"") -> bytes:
        """verify_data the victim's Finished must carry (transcript: ..server Finished [+client Cert/CV])"""
        h = self.sched.checkpoint()
        h.update(client_flight_before_fin)
        return self.sched.mac(self.sched.c_hs, h.digest())

    def typed(self, t: int, variant: int = 0) -> bytes:
        """a well-formed message of handshake type t, as valid as the adversary can make it at this point"""
        if t == EE:
            return self.encrypted_extensions()
        if t == CR:
            return self.certificate_request()
        if t == CERT:
            return self.certificate()
        if t == CV:
            return self.certificate_verify()
        if t == FIN:
            return self.finished()
        if t == SH:
            return self.emit(self.sh_bytes) if self.sh_bytes is not None else self.server_hello()
        if t == CH:
            return self.emit(self.ch["raw"])
        if t == NST:
            return self.emit(hs_msg(NST, body_new_session_ticket()))
        if t == EOED:
            return self.emit(hs_msg(EOED, b""))
        if t == KU:
            return self.emit(hs_msg(KU, bytes([variant & 1])))
        if t == CCERT:
            raw = body_certificate(self.ident.chain)
            return self.emit(hs_msg(CCERT, (1).to_bytes(2, "big") + len(raw).to_bytes(3, "big") + vec(3, zlib.compress(raw))))
        if t == MH:
            return self.emit(hs_msg(MH, self.sched.thash() if self.sched else bytes(32)))
        return self.emit(hs_msg(t, opaque_body(t, variant)))


# ------------------------------------------------------------------ rogue client


class RogueClient(_Peer):
    def __init__(self, key_mode: str = "own", suite: int = 0x1301, group: int = G_X25519,
                 psk: bytes | None = None, psk_identity: bytes = b"c11-ticket", binder: str = "ok",
                 early_data: bool = False, extensions: bytes = b"", alpn: bytes | None = None):
        self.ident = Identity(key_mode)
        self.suite = suite
        self.group = group
        self.psk = psk
        self.psk_identity = psk_identity
        self.binder_mode = binder
        self.early_data = early_data
        self.extensions = extensions
        self.alpn = alpn
        self.sent: list[int] = []
        self.sched = Schedule(suite, psk)
        self.sh = None
        self.server_flight: list[bytes] = []
        self.server_finished_ok = None
        self.psk_accepted = None
        self.early_secret = None
        self.ch_bytes = None
        self._shared_priv = None

    def client_hello(self) -> bytes:
        if self.group == G_X25519:
            self._shared_priv = x25519.X25519PrivateKey.generate()
            pub = self._shared_priv.public_key().public_bytes(serialization.Encoding.Raw, serialization.PublicFormat.Raw)
        else:
            self._shared_priv = ec.generate_private_key(ec.SECP256R1())
            pub = self._shared_priv.public_key().public_bytes(serialization.Encoding.X962, serialization.PublicFormat.UncompressedPoint)
        algs = b"".join(a.to_bytes(2, "big") for a in (SIG_ECDSA_P256, SIG_RSA_PSS_SHA256, 0x0401))
        exts = (
            ext(51, vec(2, self.group.to_bytes(2, "big") + vec(2, pub)))
            + ext(43, vec(1, (0x0304).to_bytes(2, "big")))
            + ext(13, vec(2, algs))
            + ext(10, vec(2, G_X25519.to_bytes(2, "big") + G_P256.to_bytes(2, "big")))
            + ext(45, vec(1, b"\x01"))
            + ext(0, vec(2, b"\x00" + vec(2, b"localhost")))
        )
        if self.alpn is not None:
            exts += ext(16, vec(2, vec(1, self.alpn)))
        exts += self.extensions
        if self.psk is not None and self.early_data:
            exts += ext(42, b"")
        head = (0x0303).to_bytes(2, "big") + os.urandom(32) + vec(1, b"") + vec(2, self.suite.to_bytes(2, "big")) + vec(1, b"\x00")
        if self.psk is None:
            msg = hs_msg(CH, head + vec(2, exts))
        else:
            ids = vec(2, vec(2, self.psk_identity) + (0).to_bytes(4, "big"))
            binders_len = 2 + 1 + self.sched.hl
            psk_ext_len = len(ids) + binders_len
            exts_total = len(exts) + 4 + psk_ext_len
            body_wo_binders = head + exts_total.to_bytes(2, "big") + exts + (41).to_bytes(2, "big") + psk_ext_len.to_bytes(2, "big") + ids
            total = len(body_wo_binders) + binders_len
            truncated = bytes([CH]) + total.to_bytes(3, "big") + body_wo_binders
            binder = self.sched.binder(truncated)
            if self.binder_mode == "bad":
                binder = binder[:-1] + bytes([binder[-1] ^ 1])
            msg = truncated + vec(2, vec(1, binder))
        self.ch_bytes = msg
        self.emit(msg)
        if self.psk is not None:
            self.early_secret = self.sched.early_traffic()
        return msg

    def recv_server_flight(self, initial: bytes, handshake: bytes) -> None:
        """digest ServerHello (INITIAL epoch) and EE..Finished (HANDSHAKE epoch) from the victim"""
        msgs = split_messages(initial)
        if len(msgs) != 1 or msgs[0][0] != SH:
            raise RuntimeError("victim did not emit exactly one ServerHello")
        self.sh = parse_server_hello(msgs[0])
        if self.sh["cipher_suite"] != self.suite:
            raise RuntimeError("victim selected a suite that was not offered")
        self.psk_accepted = self.sh["psk_index"] is not None
        if not self.psk_accepted and self.psk is not None:
            # early secret falls back to the PSK-less one; the transcript is unaffected
            cp = self.sched.checkpoint()
            self.sched = Schedule(self.suite, None)
            self.sched.restore(cp)
        self.sched.add(msgs[0])
        g, pub = self.sh["key_share"]
        if g == G_X25519:
            shared = self._shared_priv.exchange(x25519.X25519PublicKey.from_public_bytes(pub))
        else:
            shared = self._shared_priv.exchange(ec.ECDH(), ec.EllipticCurvePublicKey.from_encoded_point(ec.SECP256R1(), pub))
        self.sched.set_ecdhe(shared)
        self.server_flight = split_messages(handshake)
        for m in self.server_flight:
            if m[0] == FIN:
                self.server_finished_ok = self.sched.finished(self.sched.s_hs) == m[4:]
            self.sched.add(m)
        if not self.server_flight or self.server_flight[-1][0] != FIN:
            raise RuntimeError("victim's flight does not end with Finished")
        self.sched.set_app()
        self.cert_requested = any(m[0] == CR for m in self.server_flight)

    def certificate(self, empty: bool = False) -> bytes:
        return self.emit(hs_msg(CERT, body_certificate([] if empty else self.ident.chain)))

    def certificate_verify(self, variant: str = "ok") -> bytes:
        data = b" " * 64 + CLIENT_CV_CTX + b"\x00" + self.sched.thash()
        alg, sig = sign(self.ident.key, data)
        if variant == "badsig":
            sig = sig[:-1] + bytes([sig[-1] ^ 1])
        return self.emit(hs_msg(CV, body_certificate_verify(alg, sig)))

    def finished(self, variant: str = "ok") -> bytes:
        vd = mangle_verify_data(self.sched.finished(self.sched.c_hs), variant)
        return self.emit(hs_msg(FIN, vd))

    def typed(self, t: int, variant: int = 0) -> bytes:
        if t == CERT:
            return self.certificate()
        if t == CV:
            return self.certificate_verify()
        if t == FIN:
            return self.finished()
        if t == CH:
            return self.emit(self.ch_bytes) if self.ch_bytes is not None else self.client_hello()
        if t == SH:
            return self.emit(self.sh["raw"]) if self.sh else self.emit(hs_msg(SH, bytes(40)))
        if t == EE:
            return self.emit(hs_msg(EE, vec(2, b"")))
        if t == CR:
            return self.emit(hs_msg(CR, body_certificate_request()))
        if t == NST:
            return self.emit(hs_msg(NST, body_new_session_ticket()))
        if t == EOED:
            return self.emit(hs_msg(EOED, b""))
        if t == KU:
            return self.emit(hs_msg(KU, bytes([variant & 1])))
        if t == CCERT:
            raw = body_certificate(self.ident.chain)
            return self.emit(hs_msg(CCERT, (1).to_bytes(2, "big") + len(raw).to_bytes(3, "big") + vec(3, zlib.compress(raw))))
        if t == MH:
            return self.emit(hs_msg(MH, self.sched.thash()))
        return self.emit(hs_msg(t, opaque_body(t, variant)))
