"""Shared plumbing for the simnet-based property modules (C06, C09, C12, C13, C20)."""

from __future__ import annotations

from .common import Violation, h


def run_case(sc, monitors, res, case, tap=True, counters=(), lateness=None, nontrivial=None, sig_extra=()):
    """Run one scenario with the given monitors. Returns (sim, ok)."""
    from . import simnet
    from .scenarios import scenario_signature

    fates = simnet.Fates(sc["seed"], sc["fates"])
    sim = simnet.SimNet(
        sc["opts"], fates, sc["script"], monitors, seed=sc["seed"],
        lateness=sc.get("lateness", 0.0) if lateness is None else lateness,
        tap=tap, horizon=sc.get("horizon", 200.0), step_cap=sc.get("step_cap", 40000),
    )
    res.evaluations += 1
    ok = True
    try:
        simnet.run_sim(sim)
    except Violation as v:
        ok = False
        res.violation(v.signature, v.what, case, {"witness": v.witness, "fates": dict(sim.fates.counts), "opts": sc["opts"], "t": sim.now,
                                                   "tail": [p.brief() for p in (sim.tap.packets[-10:] if sim.tap else [])]})
    for m in monitors:
        for v in getattr(m, "soft", ()):
            # violations a monitor recorded without stopping the run (so that the rest of the history is still checked)
            ok = False
            res.violation(v.signature, v.what, case, {"witness": v.witness, "fates": dict(sim.fates.counts), "opts": sc["opts"]})
    for m in monitors:
        res.count(m.name + "_evaluations", m.evaluations)
        for c in counters:
            if hasattr(m, c):
                v = getattr(m, c)
                if isinstance(v, (int, float)):
                    res.count(c, v)
    res.count("datagrams", sim.client.out_count + (sim.server.out_count if sim.server else 0))
    for k, v in sim.fates.counts.items():
        res.count("fate_" + k, v)
    res.count("stop_" + str(sim.stopped_reason))
    if sim.resumed_with_ticket:
        hs = [e for _t, e in sim.client.events if type(e).__name__ == "HandshakeCompleted"]
        res.count("runs_resumed_ticket_offered")
        if hs:
            res.count("runs_0rtt_accepted" if hs[0].early_data_accepted else "runs_0rtt_rejected_by_server")
        res.count("zero_rtt_packets_on_wire", sum(1 for p in (sim.tap.packets if sim.tap else []) if p.ptype == "0rtt"))
    for k, v in sim.frontend.items():
        if v:
            res.count("frontend_" + k, v)
    res.count("obs_timer_spins", sim.timer_spins)
    for k, v in sim.spin_sources.items():
        res.count("obs_timer_spin_source:" + k, v)
    if sim.stopped_reason == "step-cap":
        res.inconclusive.append("step cap hit (seed %s)" % sc["seed"])
    if ok and (nontrivial is None or nontrivial(sim)):
        res.nontrivial.add(h(scenario_signature(sc, sim.fates.counts), sig_extra))
    return sim, ok
