"""C17 — value->bytes->value checks, part B: packet headers, Retry, Version Negotiation."""

from __future__ import annotations

import random

from . import c17_gens as G
from . import c17_refcodec as R
from .c17_adapters import AQ, build_packet, check_bytes, header_form_aq, mutate_cases
from .c17_checks_a import Ctx
from .common import exc_signature, exc_witness

TOKEN_LENS = (0, 1, 63, 64, 300)
PNS = (0, 1, 0xFFFF, 0x10000, 0x12345678, (1 << 62) - 1)


def _cid(rng, n):
    return G.rbytes(rng, n)


def _expect_header(cx, what, data, host_cid_len, want):
    """aioquic must decode `data` to the fields in `want`"""
    res = cx.res
    aq = AQ.get()
    try:
        hdr = aq.packet.pull_quic_header(aq.Buffer(data=data), host_cid_length=host_cid_len)
    except Exception as exc:
        res.violation("codec:header:decode-rejects-valid-encoding:" + want["ptype"],
                      "pull_quic_header(%s) raised %r" % (what, exc), cx.case(), dict(exc_witness(exc), data=data[:80].hex()))
        return None
    got = header_form_aq(hdr)
    bad = [k for k in want if got[k] != want[k]]
    if bad:
        v = want.get("version")
        vname = "v2" if v == R.V2 else "v1" if v == R.V1 else "other"
        res.violation("codec:header:decode-differs-from-reference:%s:%s:%s" % (want["ptype"], vname, "+".join(bad)),
                      "pull_quic_header(%s): %s" % (what, "; ".join("%s=%r expected %r" % (k, got[k], want[k]) for k in bad)),
                      cx.case(), {"data": data[:80].hex()})
    return got


def builder_case(cx, version, ptype, dcid, scid, token, pn, extra, spin, key_phase, is_client):
    res = cx.res
    res.count("header_values")
    try:
        dgram, pkt = build_packet(version, ptype, dcid, scid, token=token, pn=pn, extra=extra, spin=spin,
                                  key_phase=key_phase, is_client=is_client)
    except Exception as exc:
        res.violation(exc_signature(exc, "codec:header:encode:"), "QuicPacketBuilder raised %r" % exc, cx.case(), exc_witness(exc))
        return
    short = ptype == "one_rtt"
    # the reference reads what the builder wrote ...
    try:
        rh = R.dec_header(dgram, len(dcid))
    except R.Reject as rej:
        res.violation("codec:header:reference-rejects-builder-output:" + ptype, "reference decoder: %s" % rej, cx.case(), {"data": dgram[:80].hex()})
        return
    res.count("header_cross_decodes")
    want = {"version": None if short else version, "ptype": ptype, "dcid": dcid, "scid": b"" if short else scid,
            "token": token if ptype == "initial" else b"", "packet_length": pkt.sent_bytes if not short else len(dgram)}
    bad = [k for k in want if rh[k] != want[k]]
    if bad:
        res.violation("codec:header:builder-output-differs-from-reference:%s:%s" % (ptype, "+".join(bad)),
                      "reference decoder reads %s" % "; ".join("%s=%r expected %r" % (k, rh[k], want[k]) for k in bad), cx.case(),
                      {"data": dgram[:80].hex()})
        return
    # ... and the reference encoder must produce the same header bytes (aioquic always uses a
    # 2-byte Length and a 2-byte packet number: PACKET_LENGTH_SEND_SIZE / PACKET_NUMBER_SEND_SIZE)
    off = rh["pn_offset"]
    if short:
        ref = R.enc_short_header(dcid, pn, 2, int(spin), key_phase)
    else:
        ref = R.enc_long_header(version, ptype, dcid, scid, token, length=pkt.sent_bytes - off, pn=pn, pn_len=2, length_size=2)
    res.count("header_byte_equal_checks")
    if dgram[: off + 2] != ref:
        res.violation("codec:header:bytes-differ-from-reference:" + ptype, "builder header %s, reference %s" % (dgram[: off + 2].hex(), ref.hex()), cx.case())
    payload = dgram[off + 2 : want["packet_length"]]
    if payload[:1] != b"\x01" or any(payload[1:]) or len(payload) < 2 + 16 or any(dgram[want["packet_length"] :]):
        res.violation("codec:header:payload-misplaced:" + ptype, "payload after the header is not PING+padding+tag", cx.case(), {"data": dgram[:120].hex()})
    # O1: aioquic reads back its own header
    if _expect_header(cx, "builder output", dgram, len(dcid), want) is not None:
        res.count("header_roundtrips")


def gen_headers_builder(batch, res):
    """exhaustive: DCID x SCID lengths 0..20 for one (version, type), token lengths for Initial"""
    cx = Ctx(batch, res)
    rng = random.Random(batch["seed"])
    version, ptype = batch["version"], batch["ptype"]
    tokens = TOKEN_LENS if ptype == "initial" else (0,)
    k = 0
    for dl in range(21):
        for sl in (range(21) if ptype != "one_rtt" else (0,)):
            for tl in tokens:
                k += 1
                dcid, scid, token = _cid(rng, dl), _cid(rng, sl), G.rbytes(rng, tl)
                pn = PNS[k % len(PNS)]
                extra = (0, 0, 1, 2, 40, 700)[k % 6]
                spin, kp, cl = bool(k & 1), (k >> 1) & 1, bool((k >> 2) & 1)
                if cx.next():
                    res.evaluations += 1
                    builder_case(cx, version, ptype, dcid, scid, token, pn, extra, spin, kp, cl)
                    res.nontrivial.add("hdr:build:%x:%s:%d:%d:%d" % (version, ptype, dl, sl, tl))
    res.count("header_builder_grids_done")


def gen_headers_decode(batch, res):
    """reference-encoded headers with every Length size / pn length / CID length (incl. 21, 255) -> aioquic"""
    cx = Ctx(batch, res)
    rng = random.Random(batch["seed"])
    version = batch["version"]
    lens = list(range(21)) + [21, 255]
    for ptype in ("initial", "zero_rtt", "handshake", "one_rtt"):
        for dl in lens:
            for sl in (rng.sample(lens, 6) + [0, 20] if ptype != "one_rtt" else [0]):
                dcid, scid = _cid(rng, dl), _cid(rng, sl)
                tl = rng.choice(TOKEN_LENS) if ptype == "initial" else 0
                token = G.rbytes(rng, tl)
                pn_len = rng.randrange(1, 5)
                plen = rng.choice((0, 1, 20, 61, 62, 63, 64, 1000, 16383 - 4, 16384, 20000))
                lsize = rng.choice((None, 1, 2, 4, 8))
                tsize = rng.choice((None, 2, 4, 8))
                trailer = G.rbytes(rng, rng.choice((0, 0, 1, 30)))
                if not cx.next():
                    continue
                res.evaluations += 1
                res.count("header_values")
                if ptype == "one_rtt":
                    if dl > 20:
                        continue
                    data = R.enc_short_header(dcid, rng.getrandbits(32), pn_len, rng.randrange(2), rng.randrange(2), rng.randrange(4)) + G.rbytes(rng, plen % 1500)
                    want = {"version": None, "ptype": ptype, "dcid": dcid, "scid": b"", "token": b"", "packet_length": len(data)}
                    if _expect_header(cx, "reference short header", data, dl, want):
                        res.count("header_cross_decodes")
                    res.nontrivial.add("hdr:dec:short:%d:%d" % (dl, pn_len))
                    continue
                length = pn_len + plen
                if lsize is not None and length >= 1 << (8 * lsize - 2):
                    lsize = None
                hdr = R.enc_long_header(version, ptype, dcid, scid, token, length=length, pn=rng.getrandbits(32), pn_len=pn_len,
                                        length_size=lsize, token_len_size=tsize if ptype == "initial" and (tsize or 0) >= R.ref_varint_size(tl) else None,
                                        reserved=rng.randrange(4))
                data = hdr + G.rbytes(rng, plen) + trailer
                aq = AQ.get()
                if dl > 20 or sl > 20:
                    # RFC 9000 §17.2: v1 CIDs longer than 20 bytes must be dropped
                    try:
                        aq.packet.pull_quic_header(aq.Buffer(data=data), host_cid_length=8)
                    except ValueError:
                        res.count("header_long_cid_rejected")
                    except Exception as exc:
                        res.violation(exc_signature(exc, "codec:header:decode:"), "raised %r" % exc, cx.case(), exc_witness(exc))
                    else:
                        res.violation("codec:header:accepts-cid-longer-than-20", "dcid %d scid %d accepted" % (dl, sl), cx.case())
                    res.nontrivial.add("hdr:dec:longcid:%s" % ptype)
                    continue
                want = {"version": version, "ptype": ptype, "dcid": dcid, "scid": scid, "token": token,
                        "packet_length": len(hdr) - pn_len + length}
                if _expect_header(cx, "reference long header", data, 8, want):
                    res.count("header_cross_decodes")
                # one byte short of the declared Length must be refused
                try:
                    aq.packet.pull_quic_header(aq.Buffer(data=data[: want["packet_length"] - 1]), host_cid_length=8)
                except ValueError:
                    res.count("header_truncated_rejected")
                except Exception as exc:
                    res.violation(exc_signature(exc, "codec:header:decode:"), "raised %r" % exc, cx.case(), exc_witness(exc))
                else:
                    if want["packet_length"] > len(hdr) - pn_len:
                        res.violation("codec:header:accepts-length-beyond-datagram", "Length %d with one byte missing accepted" % length, cx.case())
                res.nontrivial.add("hdr:dec:%x:%s:%d:%s:%s" % (version, ptype, dl, lsize, pn_len))


def retry_case(cx, version, dcid, scid, token, odcid, unused):
    res = cx.res
    aq = AQ.get()
    res.count("retry_values")
    try:
        data = aq.packet.encode_quic_retry(version=version, source_cid=scid, destination_cid=dcid,
                                           original_destination_cid=odcid, retry_token=token, unused=unused)
    except Exception as exc:
        res.violation(exc_signature(exc, "codec:retry:encode:"), "encode_quic_retry raised %r" % exc, cx.case(), exc_witness(exc))
        return
    ref = R.enc_retry(version, dcid, scid, token, odcid, unused)
    res.count("retry_byte_equal_checks")
    if data != ref:
        where = "integrity-tag" if data[:-16] == ref[:-16] else "header"
        res.violation("codec:retry:bytes-differ-from-reference:" + where, "encode_quic_retry %s, reference %s" % (data.hex()[:200], ref.hex()[:200]), cx.case())
    want = {"version": version, "ptype": "retry", "dcid": dcid, "scid": scid, "token": token, "tag": ref[-16:], "packet_length": len(ref)}
    if _expect_header(cx, "reference Retry", ref, 8, want):
        res.count("retry_cross_decodes")
    try:
        tag = aq.packet.get_retry_integrity_tag(ref[:-16], odcid, version=version)
    except Exception as exc:
        res.violation(exc_signature(exc, "codec:retry:tag:"), "get_retry_integrity_tag raised %r" % exc, cx.case(), exc_witness(exc))
    else:
        res.count("retry_tag_checks")
        if tag != ref[-16:]:
            res.violation("codec:retry:integrity-tag-differs-from-reference", "tag %s, reference %s" % (tag.hex(), ref[-16:].hex()), cx.case())


def vn_case(cx, dcid, scid, versions):
    res = cx.res
    aq = AQ.get()
    res.count("vn_values")
    try:
        data = aq.packet.encode_quic_version_negotiation(source_cid=scid, destination_cid=dcid, supported_versions=versions)
    except Exception as exc:
        res.violation(exc_signature(exc, "codec:version_negotiation:encode:"), "raised %r" % exc, cx.case(), exc_witness(exc))
        return
    ref = R.enc_version_negotiation(dcid, scid, versions, first_byte=data[0] if data else 0x80)
    res.count("vn_byte_equal_checks")
    if data != ref:  # the 7 low bits of the first byte are random by design, the reference copies them
        res.violation("codec:version_negotiation:bytes-differ-from-reference", "aioquic %s, reference %s" % (data.hex()[:200], ref.hex()[:200]), cx.case())
    ref2 = R.enc_version_negotiation(dcid, scid, versions, first_byte=0x80 | (len(versions) * 37 & 0x7F))
    want = {"version": 0, "ptype": "version_negotiation", "dcid": dcid, "scid": scid, "versions": list(versions), "packet_length": len(ref2)}
    if _expect_header(cx, "reference Version Negotiation", ref2, 8, want):
        res.count("vn_cross_decodes")


def gen_retry_vn(batch, res):
    cx = Ctx(batch, res)
    rng = random.Random(batch["seed"])
    k = 0
    if batch["what"] == "retry":
        version = batch["version"]
        for dl in range(21):
            for sl in range(21):
                for tl in TOKEN_LENS:
                    k += 1
                    dcid, scid, token, odcid = _cid(rng, dl), _cid(rng, sl), G.rbytes(rng, tl), _cid(rng, k % 21)
                    if cx.next():
                        res.evaluations += 1
                        retry_case(cx, version, dcid, scid, token, odcid, k % 16)
                        res.nontrivial.add("retry:%x:%d:%d:%d" % (version, dl, sl, tl))
        res.count("retry_grids_done")
    else:
        pool = [R.V1, R.V2, 0xFF00001D, 0x0A1A2A3A, 0xFFFFFFFF, 1 << 31, 0x1A2A3A4A]
        for nv in range(21):
            for dl in range(21):
                for sl in range(21):
                    if (dl * 21 + sl + nv) % batch.get("stride", 1) != batch.get("offset", 0):
                        continue
                    versions = [rng.choice(pool) for _ in range(nv)]
                    dcid, scid = _cid(rng, dl), _cid(rng, sl)
                    if cx.next():
                        res.evaluations += 1
                        vn_case(cx, dcid, scid, versions)
                        res.nontrivial.add("vn:%d:%d:%d" % (nv, dl, sl))
        res.count("vn_grids_done")


def check_header_at_offset(data, arg, res, rng, kind, k=None):
    """A packet header that is not the first one of its datagram (coalesced packets): parsing it at offset k of a larger
    buffer must give what parsing the same bytes on their own gives — same fields, same packet length, or the same
    refusal — and an accepted packet must end inside the buffer."""
    aq = AQ.get()

    def run(buf):
        try:
            h = aq.packet.pull_quic_header(buf, host_cid_length=arg or 0)
        except aq.DOC as exc:
            return "rej", None
        except Exception as exc:
            return "exc:" + type(exc).__name__, None
        return "ok", header_form_aq(h)

    alone = run(aq.Buffer(data=data))
    if k is None:
        k = rng.choice((1, 2, 7, 19, 50, 300, 1200))
    buf = aq.Buffer(data=bytes(k) + data)
    buf.seek(k)
    inside = run(buf)
    res.count("header_offset_cases")
    case = {"gen": "replay_header_offset", "hex": bytes(data).hex(), "arg": arg, "offset": k}
    if inside[0] == "ok" and k + inside[1]["packet_length"] > k + len(data):
        res.violation("codec:header:coalesced:packet-ends-past-the-datagram", "header parsed at offset %d declares packet_length %d, the datagram has %d bytes left (%s)" % (
            k, inside[1]["packet_length"], len(data), kind), case, {"alone": repr(alone)[:600], "inside": repr(inside)[:600]})
    if alone != inside:
        res.violation("codec:header:coalesced:outcome-depends-on-position:%s-vs-%s" % (alone[0], inside[0]),
                      "the same %d bytes parse differently on their own and at offset %d of a datagram (%s)" % (len(data), k, kind), case,
                      {"alone": repr(alone)[:600], "inside": repr(inside)[:600]})
    else:
        res.count("header_offset_agree_" + alone[0].split(":")[0])
    return alone[0]


def gen_replay_header_offset(batch, res):
    res.evaluations += 1
    res.nontrivial.add("replay:" + check_header_at_offset(bytes.fromhex(batch["hex"]), batch.get("arg"), res, None, "replay", k=batch["offset"]))


def gen_header_bytes(batch, res):
    """mutated valid headers / Retry / VN and arbitrary bytes into pull_quic_header"""
    rng = random.Random(batch["seed"])
    for _ in range(batch["n"]):
        version = rng.choice((R.V1, R.V2))
        dl, sl = rng.randrange(21), rng.randrange(21)
        dcid, scid = _cid(rng, dl), _cid(rng, sl)
        c = rng.random()
        if c < 0.5:
            ptype = rng.choice(("initial", "zero_rtt", "handshake"))
            plen = rng.choice((0, 3, 20, 70))
            pn_len = rng.randrange(1, 5)
            token = G.rbytes(rng, rng.choice((0, 1, 5, 64))) if ptype == "initial" else b""
            data = R.enc_long_header(version, ptype, dcid, scid, token, pn_len + plen, rng.getrandbits(32), pn_len,
                                     rng.choice((None, 2, 4))) + G.rbytes(rng, plen) + G.rbytes(rng, rng.choice((0, 0, 7)))
            arg = rng.randrange(21)
        elif c < 0.65:
            data = R.enc_retry(version, dcid, scid, G.rbytes(rng, rng.choice((0, 1, 30))), _cid(rng, 8), rng.randrange(16))
            arg = 8
        elif c < 0.8:
            data = R.enc_version_negotiation(dcid, scid, [rng.getrandbits(32) for _ in range(rng.randrange(6))], rng.randrange(128))
            arg = 8
        else:
            data = R.enc_short_header(dcid, rng.getrandbits(32), rng.randrange(1, 5), rng.randrange(2), rng.randrange(2)) + G.rbytes(rng, 20)
            arg = dl
        for kind, mut in mutate_cases(data, [], rng, nflips=16):
            res.evaluations += 1
            res.nontrivial.add("hdr:bytes:%s:%s" % (kind, check_bytes("header", mut, arg, res, kind)))
            if rng.random() < 0.5:
                check_header_at_offset(mut, arg, res, rng, kind)
    for _ in range(batch.get("nbytes", 0)):
        data = G.rbytes(rng, rng.choice((0, 1, 5, 7, 20, 48, 100)))
        if data and rng.random() < 0.5:
            data = bytes([data[0] | 0xC0]) + rng.choice((b"\x00\x00\x00\x01", b"\x6b\x33\x43\xcf", b"\x00\x00\x00\x00")) + data[1:]
        res.evaluations += 1
        res.nontrivial.add("hdr:bytes:random:" + check_bytes("header", data, rng.randrange(21), res, "random"))
