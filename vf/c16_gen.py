"""C16 workload: independent HTTP/3 + QPACK byte builders and the hostile-stream grammar.

No aioquic code is used here (bytes/int only); vf.frames.enc_varint builds every varint.
A *case* is a small JSON dict {"fam": <family>, "p": [ints], ...}; `build(case, ctx)` turns it
into a list of segments (slot, bytes, fin) and a (stream kind, frame kind) label.  `ctx` (see
vf/props/c16.py) hands out stream ids that a real transport could deliver on.
"""

from __future__ import annotations

import random

from .frames import enc_varint as V

VMAX = (1 << 62) - 1

# ------------------------------------------------------------------ HTTP/3 framing

FRAME_NAMES = {
    0x0: "DATA", 0x1: "HEADERS", 0x2: "H2RESERVED", 0x3: "CANCEL_PUSH", 0x4: "SETTINGS",
    0x5: "PUSH_PROMISE", 0x6: "H2RESERVED", 0x7: "GOAWAY", 0x8: "H2RESERVED", 0x9: "H2RESERVED",
    0xD: "MAX_PUSH_ID", 0xE: "DUPLICATE_PUSH", 0x41: "WEBTRANSPORT_STREAM",
}


def frame_name(t):
    if t in FRAME_NAMES:
        return FRAME_NAMES[t]
    if t == VMAX:
        return "TYPE_MAX"
    if t >= 0x21 and (t - 0x21) % 0x1F == 0:
        return "GREASE"
    return "UNKNOWN"


GREASE_BIG = 0x1F * ((VMAX - 0x21) // 0x1F) + 0x21
GRID_TYPES = list(range(0x42)) + [0x5F, 0x1F * 1000 + 0x21, GREASE_BIG, VMAX]


def fr(t, payload=b"", declared=None, tsize=None, lsize=None):
    n = len(payload) if declared is None else declared
    return V(t, tsize) + V(n, lsize) + payload


def settings_payload(pairs, sizes=None):
    out = b""
    for i, (k, v) in enumerate(pairs):
        out += V(k, sizes) + V(v, sizes)
    return out


VALID_SETTINGS = [(0x1, 4096), (0x7, 16), (0x8, 1), (0x33, 1), (0x2B603742, 1), (0x21, 7)]

# ------------------------------------------------------------------ QPACK (RFC 9204) builders


def pint(value, prefix_bits, flags=0):
    """Prefix integer (RFC 7541 5.1); flags = the high bits of the first byte."""
    cap = (1 << prefix_bits) - 1
    if value < cap:
        return bytes([flags | value])
    out = bytearray([flags | cap])
    value -= cap
    while value >= 128:
        out.append((value & 0x7F) | 0x80)
        value >>= 7
    out.append(value)
    return bytes(out)


def qstr(b, prefix_bits=7, flags=0, huffman=False, declared=None):
    h = (1 << prefix_bits) if huffman else 0
    return pint(len(b) if declared is None else declared, prefix_bits, flags | h) + b


MAX_ENTRIES = 4096 // 32


def block_prefix(ric=0, base_delta=0, sign=0):
    enc = 0 if ric == 0 else (ric % (2 * MAX_ENTRIES)) + 1
    return pint(enc, 8) + pint(base_delta, 7, 0x80 if sign else 0)


def f_static(idx):
    return pint(idx, 6, 0xC0)


def f_dynamic(rel):
    return pint(rel, 6, 0x80)


def f_postbase(idx):
    return pint(idx, 4, 0x10)


def f_nameref(idx, value, static=True, huffman=False):
    return pint(idx, 4, 0x40 | (0x10 if static else 0)) + qstr(value, 7, 0, huffman)


def f_literal(name, value, huffman_name=False, huffman_value=False):
    return qstr(name, 3, 0x20, huffman_name) + qstr(value, 7, 0, huffman_value)


def block(fields, ric=0, base_delta=0, sign=0):
    return block_prefix(ric, base_delta, sign) + b"".join(fields)


def ei_capacity(n):
    return pint(n, 5, 0x20)


def ei_insert_nameref(idx, value, static=True):
    return pint(idx, 6, 0x80 | (0x40 if static else 0)) + qstr(value)


def ei_insert_literal(name, value):
    return qstr(name, 5, 0x40) + qstr(value)


def ei_duplicate(idx):
    return pint(idx, 5, 0x00)


def di_section_ack(sid):
    return pint(sid, 7, 0x80)


def di_cancel(sid):
    return pint(sid, 6, 0x40)


def di_increment(n):
    return pint(n, 6, 0x00)


# static table indices used below
S_AUTHORITY, S_PATH_ROOT, S_CONTENT_LENGTH_0, S_METHOD_GET, S_METHOD_POST = 0, 1, 4, 17, 20
S_SCHEME_HTTPS, S_STATUS_200, S_METHOD_CONNECT = 23, 25, 15


def valid_request_fields(extra=()):
    return [f_static(S_METHOD_GET), f_static(S_SCHEME_HTTPS), f_static(S_PATH_ROOT),
            f_nameref(S_AUTHORITY, b"localhost")] + list(extra)


def valid_response_fields(extra=()):
    return [f_static(S_STATUS_200)] + list(extra)


def valid_message_fields(role, extra=()):
    """Header fields the *victim* in `role` accepts as a first HEADERS frame."""
    return valid_request_fields(extra) if role == "server" else valid_response_fields(extra)


def valid_headers_frame(role, extra=()):
    return fr(1, block(valid_message_fields(role, extra)))


# ------------------------------------------------------------------ hostile payload material


def rbytes(rng, n):
    return rng.getrandbits(8 * n).to_bytes(n, "big") if n else b""


PSEUDO_METHOD = [b"GET", b"CONNECT", b"OPTIONS", b"", None, b"get"]
PSEUDO_SCHEME = [b"https", b"http", b"ftp", b"", None]
PSEUDO_AUTHORITY = [b"localhost", b"", None]
PSEUDO_PATH = [b"/", b"", b"*", b"relative", None, b"//", b"/ "]
PSEUDO_PROTOCOL = [None, b"webtransport", b""]
PSEUDO_STATUS = [b"200", b"", b"abc", b"99", b"1000", b"-1", b"2 0", b"\xc2\xb2"]
NAME_CLASSES = ["lower", "upper", "nonascii", "ctl", "colon_inside", "pseudo_unknown", "space", "del", "empty_colon"]
VALUE_CLASSES = ["ascii", "nonutf8", "lone_cont", "nul", "crlf", "lead_ws", "trail_ws", "latin1", "overlong", "empty"]
SIZES = [1, 2, 7, 8, 100, 1000, 1100, 1300, 3000, 16000, 65536]


def make_name(cls, n):
    n = max(1, n)
    if cls == "lower":
        return (b"x-" + b"a" * n)[:max(n, 1)] if n > 2 else b"x" * n
    if cls == "upper":
        return b"X" * n
    if cls == "nonascii":
        return (b"\xc3\xa9" * n)[:n]
    if cls == "ctl":
        return (b"a\x01" * n)[:n] if n > 1 else b"\x01"
    if cls == "colon_inside":
        return (b"a:" + b"b" * n)[:max(n, 2)]
    if cls == "pseudo_unknown":
        return (b":" + b"z" * n)[:max(n, 2)]
    if cls == "space":
        return (b"a b" * n)[:max(n, 3)]
    if cls == "del":
        return (b"a\x7f" * n)[:max(n, 2)]
    if cls == "empty_colon":
        return b":"
    raise KeyError(cls)


def make_value(cls, n):
    if cls == "empty":
        return b""
    n = max(1, n)
    if cls == "ascii":
        return b"v" * n
    if cls == "nonutf8":
        return (b"\xff\xfe" * n)[:n]
    if cls == "lone_cont":
        return (b"a\x80" * n)[:max(n, 2)]
    if cls == "nul":
        return (b"a\x00" * n)[:max(n, 2)]
    if cls == "crlf":
        return (b"a\r\nb" * n)[:max(n, 4)]
    if cls == "lead_ws":
        return b" " + b"v" * n
    if cls == "trail_ws":
        return b"v" * n + b"\t"
    if cls == "latin1":
        return (b"caf\xe9" * n)[:max(n, 4)]
    if cls == "overlong":
        return (b"\xc0\xaf\xed\xa0\x80" * n)[:max(n, 5)]
    raise KeyError(cls)


# ------------------------------------------------------------------ truncation corpus


def corpus(role):
    """Valid byte strings per stream kind, written with multi-byte varints."""
    sp = b"".join(V(k, 8 if i % 3 == 0 else 4 if i % 3 == 1 else None) + V(v, 2 if v < 16384 else 4)
                  for i, (k, v) in enumerate(VALID_SETTINGS))
    ctrl = V(0, 8) + fr(4, sp, tsize=8, lsize=8)
    if role == "server":
        ctrl += fr(0xD, V(20, 2), tsize=4, lsize=2)
    ctrl += fr(0x3, V(1, 4), tsize=2, lsize=4) + fr(0x7, V(0, 8), tsize=8, lsize=1) + fr(0x5F, b"grease", tsize=2)
    req = (fr(1, block(valid_message_fields(role, [f_literal(b"x-a", b"b")])), tsize=8, lsize=8)
           + fr(0, b"hello", tsize=2, lsize=4) + fr(1, block([f_literal(b"x-trailer", b"1")]), tsize=4, lsize=2))
    push = V(1, 8) + V(3, 8) + fr(1, block(valid_response_fields()), tsize=2, lsize=2) + fr(0, b"pushed", lsize=8)
    wt_uni = V(0x54, 8) + V(4, 8) + b"webtransport-data"
    wt_bidi = V(0x41, 8) + V(4, 8) + b"webtransport-data"
    qenc = V(2, 8) + ei_capacity(4096) + ei_insert_literal(b"x-custom", b"value-1") + ei_insert_nameref(S_AUTHORITY, b"example.org") + ei_duplicate(0)
    qdec = V(3, 8) + di_cancel(0) + di_cancel(4)
    unknown = V(GREASE_BIG, 8) + b"whatever"
    pp = fr(5, V(2, 8) + block(valid_request_fields()), tsize=8, lsize=4)
    return {"control": ctrl, "request": req, "push": push, "wt_uni": wt_uni, "wt_bidi": wt_bidi,
            "qenc": qenc, "qdec": qdec, "unknown_uni": unknown, "request_pp": pp,
            "datagram": V(5, 8) + b"dgram-payload"}


# ------------------------------------------------------------------ lists of special payloads

def settings_variants():
    """(name, payload bytes) for SETTINGS frames."""
    out = [
        ("empty", b""),
        ("valid", settings_payload(VALID_SETTINGS)),
        ("id_only", V(0x1)),
        ("id_only_2nd", V(0x1) + V(100) + V(0x7)),
        ("value_cut", V(0x1) + V(4096, 2)[:1]),
        ("value_cut8", V(0x7) + V(5, 8)[:5]),
        ("id_cut", V(0x2B603742, 4)[:2]),
        ("id_cut_after_pair", V(0x1) + V(0) + V(0x2B603742, 4)[:3]),
        ("trailing_byte", settings_payload(VALID_SETTINGS) + b"\x40"),
        ("huge_id", settings_payload([(VMAX, 1)])),
        ("huge_id_value", settings_payload([(VMAX, VMAX)])),
        ("huge_capacity", settings_payload([(0x1, VMAX), (0x7, 16)])),
        ("huge_blocked", settings_payload([(0x1, 4096), (0x7, VMAX)])),
        ("huge_both", settings_payload([(0x1, VMAX), (0x7, VMAX)])),
        ("cap_2_32", settings_payload([(0x1, 1 << 32), (0x7, 1 << 32)])),
        ("cap_2_31", settings_payload([(0x1, (1 << 31) - 1), (0x7, 65536)])),
        ("zero_capacity", settings_payload([(0x1, 0), (0x7, 0)])),
        ("field_section_0", settings_payload([(0x6, 0)])),
        ("field_section_max", settings_payload([(0x6, VMAX)])),
        ("h3_datagram_2", settings_payload([(0x33, 2)])),
        ("h3_datagram_max", settings_payload([(0x33, VMAX)])),
        ("wt_without_dgram", settings_payload([(0x2B603742, 1)])),
        ("wt_2", settings_payload([(0x33, 1), (0x2B603742, 2)])),
        ("connect_2", settings_payload([(0x8, 2)])),
        ("connect_max", settings_payload([(0x8, VMAX)])),
        ("unknown_ids", settings_payload([(0x21 + 0x1F * i, i) for i in range(1, 40)])),
        ("many_pairs", settings_payload([(0x1000 + i, i) for i in range(3000)])),
        ("dup_known", settings_payload([(0x1, 4096), (0x1, 4096)])),
        ("dup_known_diff", settings_payload([(0x7, 1), (0x1, 0), (0x7, 2)])),
        ("dup_unknown", settings_payload([(0x21, 1), (0x21, 1)])),
        ("dup_huge", settings_payload([(VMAX, 1), (VMAX, 2)])),
        ("dup_encodings", V(0x1, 1) + V(1) + V(0x1, 8) + V(1)),
    ]
    for rid in (0x0, 0x2, 0x3, 0x4, 0x5):
        out.append(("reserved_%x" % rid, settings_payload([(rid, 0)])))
        out.append(("reserved_%x_after" % rid, settings_payload([(0x1, 0), (rid, 1)])))
        out.append(("reserved_%x_cut" % rid, V(rid)))
    return out


def idframe_variants():
    """payloads for MAX_PUSH_ID / GOAWAY / CANCEL_PUSH / DUPLICATE_PUSH / PRIORITY."""
    return [
        ("empty", b""), ("short2", V(300, 2)[:1]), ("short4", V(70000, 4)[:3]), ("short8", V(5, 8)[:7]),
        ("valid0", V(0)), ("valid", V(20)), ("valid8", V(9, 8)), ("max", V(VMAX)),
        ("trailing1", V(7) + b"\x00"), ("trailing_varint", V(7) + V(8)), ("trailing_long", V(7, 8) + b"x" * 100),
        ("trailing_cut", V(3) + V(5, 4)[:2]),
    ]


H0_LINES = [
    ("valid", b"GET /\r\n"), ("valid_long_path", b"GET /" + b"a" * 3000 + b"\r\n"), ("no_space", b"GET\r\n"),
    ("no_space_long", b"G" * 2000 + b"\r\n"), ("no_crlf", b"GET /"), ("no_crlf_no_space", b"GET"),
    ("only_crlf", b"\r\n"), ("only_lf", b"\n"), ("only_space_crlf", b" \r\n"), ("spaces", b"   "),
    ("space_first", b" GET /\r\n"), ("two_lines", b"GET /a\r\nGET /b\r\n"), ("tab", b"GET\t/\r\n"),
    ("binary", bytes(range(256))), ("binary_crlf", bytes(range(256)) + b"\r\n"), ("nul", b"\x00\r\n"),
    ("nonutf8", b"\xff\xfe \xff\r\n"), ("nonutf8_nospace", b"\xff\xfe\xfd\r\n"), ("cr_only", b"GET /\r"),
    ("crlfcrlf", b"\r\n\r\n"), ("big_nocrlf", b"A" * 65536), ("big_binary", b"\x80" * 20000 + b"\r\n"),
    ("vt_ff", b"GET\x0b\x0c\r\n"), ("trailing_ws", b"GET \r\n"), ("lead_crlf", b"\r\nGET /\r\n"),
]


# ------------------------------------------------------------------ case -> segments

FRAMED_TARGETS = ["request", "push", "control", "srv_bidi"]
ID_FRAME_TYPES = [0xD, 0x7, 0x3, 0xE, 0x2]
GRID_LENGTHS = 6


def open_target(ctx, target, same=True, with_settings=False):
    """-> (stream id, preamble bytes, stream-kind label)"""
    if target == "request":
        if same and ctx.open_req is not None:
            return ctx.open_req, b"", "request"
        return ctx.new_req(), b"", "request"
    if target == "push":
        return ctx.new_uni(), V(1) + V(ctx.next_push_id()), "push"
    if target == "control":
        if same and ctx.ctrl is not None:
            return ctx.ctrl, b"", "control"
        pre = V(0)
        if with_settings and ctx.ctrl is None:
            pre += fr(4, settings_payload(VALID_SETTINGS))
        return ctx.new_uni(), pre, "control"
    if target == "srv_bidi":
        return ctx.new_srvbidi(), b"", "srv_bidi"
    raise KeyError(target)


def grid_payload(li, pm, rng):
    """-> (payload bytes, declared length)"""
    n, declared = [(0, 0), (1, 1), (63, 63), (64, 64), (10, 100000), (10, VMAX)][li]
    if pm == 0:
        pl = bytes(n)
    elif pm == 1:
        pl = rbytes(rng, n)
    else:
        pl = b"\xff" * n
    return pl, declared


def _plausible_payload(t, rng, ctx):
    """A payload that is *nearly* right for frame type t."""
    c = rng.randrange(6)
    if t == 0x0:
        return rbytes(rng, rng.choice([0, 1, 5, 100, 2000]))
    if t in (0x1, 0x5):
        pre = V(rng.choice([0, 1, 7, VMAX])) if t == 0x5 else b""
        if c == 0:
            return pre + block(valid_message_fields(ctx.role if t == 1 else "server"))
        if c == 1:
            return pre + block([f_literal(make_name(rng.choice(NAME_CLASSES), rng.choice([1, 5, 40])),
                                          make_value(rng.choice(VALUE_CLASSES), rng.choice([1, 5, 40])))])
        if c == 2:
            return pre + block(valid_message_fields(ctx.role) + [f_dynamic(rng.randrange(4))], ric=rng.randrange(1, 6))
        if c == 3:
            return pre + rbytes(rng, rng.choice([1, 2, 3, 8, 30]))
        if c == 4:
            b = block(valid_message_fields(ctx.role, [f_literal(b"x-y", b"zzzz")]))
            return pre + b[: rng.randrange(len(b) + 1)]
        return pre + block([f_literal(b"content-length", rng.choice([b"5", b"-1", b"x", b"1" * 5000, b"0"]))] if ctx.role == "x" else
                           valid_message_fields(ctx.role, [f_literal(b"content-length", rng.choice([b"5", b"-1", b"x", b"1" * 5000, b"0", b"1_0"]))]))
    if t == 0x4:
        v = settings_variants()
        return v[rng.randrange(len(v))][1]
    if t in ID_FRAME_TYPES:
        v = idframe_variants()
        return v[rng.randrange(len(v))][1]
    return rbytes(rng, rng.choice([0, 1, 2, 9, 64]))


def build(case, ctx):
    """-> (segments [(slot, bytes, fin)], (stream kind, frame kind))"""
    fam = case["fam"]
    p = case.get("p", [])
    rng = random.Random("%s/%r" % (fam, p))
    role = ctx.role

    if fam == "grid":
        ti, li, pm, fin, tgt, mode = p
        t = GRID_TYPES[ti]
        target = FRAMED_TARGETS[tgt]
        sid, pre, sk = open_target(ctx, target, same=not (mode & 1), with_settings=bool(mode & 2))
        pl, declared = grid_payload(li, pm, rng)
        return [(sid, pre + fr(t, pl, declared), bool(fin))], (sk, frame_name(t))

    if fam == "trunc":
        ki, cut, fin = p
        cp = corpus(role)
        kind = sorted(cp)[ki]
        s = cp[kind][:cut]
        if kind == "datagram":
            return [("dgram", s, False)], ("datagram", "trunc")
        if kind in ("request", "request_pp", "wt_bidi"):
            if kind == "wt_bidi" and p[0] % 2 == 0:
                sid = ctx.new_srvbidi()
            else:
                sid = ctx.new_req()
        else:
            sid = ctx.new_uni()
        return [(sid, s, bool(fin))], (kind, "trunc")

    if fam == "settings":
        vi, place, fin = p
        name, pl = settings_variants()[vi]
        declared = None
        if place == 2:
            declared = len(pl) + 5
        if place == 3:
            declared = max(0, len(pl) - 1)
        if place == 1:
            sid, pre, sk = open_target(ctx, "request")
        elif place == 4:
            sid, pre, sk = open_target(ctx, "push")
        else:
            sid, pre, sk = open_target(ctx, "control", same=True)
        data = pre + fr(4, pl, declared)
        if place == 5:  # twice
            data += fr(4, pl)
        # whatever the peer's SETTINGS say (or leave out) about HTTP/3 datagrams, a datagram that follows is still
        # network input: dropped, delivered or answered with an HTTP/3 error, never an exception
        return [(sid, data, bool(fin)), ("dgram", V(0) + b"after-settings", False), ("dgram", V(4, 8) + b"", False)], (sk, "SETTINGS")

    if fam == "idframe":
        ti, vi, tgt, pre_settings = p
        t = ID_FRAME_TYPES[ti]
        name, pl = idframe_variants()[vi]
        target = ["control", "request", "push"][tgt]
        sid, pre, sk = open_target(ctx, target, same=True, with_settings=bool(pre_settings))
        data = pre + fr(t, pl)
        if pre_settings == 2:
            data += fr(t, V(1))  # a second, smaller one
        return [(sid, data, False)], (sk, frame_name(t))

    if fam == "critical":
        which, action = p
        stype = [0, 2, 3][which]
        sk = ["control", "qenc", "qdec"][which]
        existing = [ctx.ctrl, ctx.qenc, ctx.qdec][which]
        body = fr(4, settings_payload(VALID_SETTINGS)) if which == 0 else b""
        segs = []
        if action == 0:  # a second (or first+second) stream of that type
            if existing is None:
                segs.append((ctx.new_uni(), V(stype) + body, False))
            segs.append((ctx.new_uni(), V(stype) + body, False))
            return segs, (sk, "second-stream")
        if action == 4:  # second stream with 8-byte type varint
            if existing is None:
                segs.append((ctx.new_uni(), V(stype) + body, False))
            segs.append((ctx.new_uni(), V(stype, 8), True))
            return segs, (sk, "second-stream")
        if existing is None:
            existing = ctx.new_uni()
            first = V(stype) + body
        else:
            first = b""
        if action == 1:  # lone FIN later
            if first:
                segs.append((existing, first, False))
            segs.append((existing, b"", True))
        elif action == 2:  # FIN together with data
            extra = fr(0x21, b"x") if which == 0 else (ei_capacity(100) if which == 1 else di_cancel(0))
            segs.append((existing, first + extra, True))
        else:  # FIN on the type byte itself / immediately
            segs.append((existing, first, True))
        return segs, (sk, "fin")

    if fam == "order":
        (v,) = p
        h = valid_headers_frame(role)
        tr = fr(1, block([f_literal(b"x-trailer", b"1")]))
        d = fr(0, b"body")
        seqs = [
            ("DATA", d), ("DATA", fr(0, b"")), ("HEADERS", h + d + tr + h), ("DATA", h + d + tr + d),
            ("UNKNOWN", h + d + tr + fr(0x21, b"g")), ("HEADERS", h + h + h), ("HEADERS", fr(1, b"")),
            ("HEADERS", fr(1, block([]))), ("HEADERS", tr), ("HEADERS", h + fr(1, block(valid_message_fields(role)))),
            ("HEADERS", fr(1, block(valid_message_fields(role, [f_literal(b"content-length", b"10")]))) + d),
            ("HEADERS", fr(1, block(valid_message_fields(role, [f_literal(b"content-length", b"0")])))),
            ("HEADERS", fr(1, block(valid_message_fields(role, [f_literal(b"transfer-encoding", b"chunked")])))),
            ("HEADERS", fr(1, block(valid_message_fields(role) + valid_message_fields(role)))),
            ("HEADERS", fr(1, block([f_literal(b"x-first", b"1")] + valid_message_fields(role)))),
            ("HEADERS", fr(1, block([f_static(S_METHOD_GET)] if role == "server" else [f_static(S_METHOD_GET)]))),
            ("HEADERS", fr(1, block([f_static(S_METHOD_GET), f_static(22), f_nameref(S_AUTHORITY, b""), f_nameref(S_PATH_ROOT, b"")]))),
            ("DATA", h + fr(0, b"x" * 10, declared=VMAX) + b"y" * 50),
            ("DATA", h + fr(0, b"", declared=5)),
            ("H2RESERVED", h + fr(2, b"12345")), ("GOAWAY", h + fr(7, V(0))), ("MAX_PUSH_ID", h + fr(0xD, V(1))),
            ("WEBTRANSPORT_STREAM", h + V(0x41) + V(0) + b"data"), ("WEBTRANSPORT_STREAM", d[:0] + V(0x41) + V(VMAX)),
            ("WEBTRANSPORT_STREAM", V(0x41) + V(4) + h), ("HEADERS", h[:-1]), ("DATA", h + d[:-2]),
        ]
        name, data = seqs[v % len(seqs)]
        fin = (v // len(seqs)) % 2
        sid, pre, sk = open_target(ctx, "request", same=bool((v // (2 * len(seqs))) % 2))
        return [(sid, data, bool(fin))], (sk, name)

    if fam == "pp":
        v, tgt, fin = p
        vb = block(valid_request_fields())
        variants = [
            b"", V(1), V(300, 2)[:1], V(5, 8)[:4], V(1) + vb, V(VMAX) + vb, V(1) + rbytes(rng, 12),
            V(1) + vb[:-3], V(1) + block(valid_request_fields([f_dynamic(0)]), ric=3),
            V(1) + block(valid_response_fields()), V(1) + block([]), V(1) + block_prefix(),
            V(1) + block(valid_request_fields([f_literal(b"X-UPPER", b"\xff")])),
            V(9) + vb,
        ]
        data = fr(5, variants[v % len(variants)])
        if v >= len(variants):  # the same promise twice
            data += data
        target = ["request", "push", "control"][tgt]
        sid, pre, sk = open_target(ctx, target, same=True, with_settings=True)
        return [(sid, pre + data, bool(fin))], (sk, "PUSH_PROMISE")

    if fam == "qblock":
        v, k, fin = p
        good = block(valid_message_fields(role, [f_literal(b"x-custom-header", b"some-value"), f_nameref(S_CONTENT_LENGTH_0, b"3")]))
        segs = []
        sid = ctx.new_req()
        label = "HEADERS"
        if v == 0:  # random bytes
            data = fr(1, rbytes(rng, [1, 2, 3, 4, 8, 16, 33, 64, 200, 1000][k % 10]))
        elif v == 1:  # truncated valid block
            data = fr(1, good[: k % (len(good) + 1)])
        elif v == 2:  # huge prefix integers
            opts = [
                b"\xff" + b"\xff" * 10 + b"\x00", pint(VMAX * 4, 8) + pint(0, 7), pint(1, 8) + pint(VMAX, 7, 0x80),
                block([pint(VMAX, 6, 0xC0)]), block([pint(99, 6, 0xC0)]), block([pint(1 << 40, 6, 0x80)], ric=1),
                block([f_postbase(0)]), block([f_postbase(1 << 33)], ric=2), block([pint(98, 6, 0xC0), pint(99, 4, 0x50) + qstr(b"v")]),
                block([qstr(b"ab", 3, 0x20, declared=VMAX)]), block([qstr(b"name", 3, 0x20) + qstr(b"v", 7, 0, declared=1 << 31)]),
                block([pint(0, 4, 0x40) + qstr(b"v")], ric=1), block([pint(3, 3, 0x00) + qstr(b"v")], ric=1),
                block_prefix(ric=255), pint(2 * MAX_ENTRIES + 5, 8) + pint(0, 7), block([], ric=1, base_delta=5, sign=1),
            ]
            data = fr(1, opts[k % len(opts)])
        elif v == 3:  # huffman garbage
            opts = [
                block([qstr(b"\xff\xff\xff\xff", 3, 0x20, huffman=True) + qstr(b"v")]),
                block([qstr(b"name", 3, 0x20) + qstr(b"\xff\xff\xff\xff\xff", 7, 0, huffman=True)]),
                block([qstr(b"name", 3, 0x20) + qstr(b"\x00", 7, 0, huffman=True)]),
                block([qstr(rbytes(rng, 20), 3, 0x20, huffman=True) + qstr(rbytes(rng, 20), 7, 0, huffman=True)]),
                block([f_nameref(S_AUTHORITY, rbytes(rng, 30), huffman=True)]),
                block(valid_message_fields(role, [qstr(b"\x1c\x64", 3, 0x20, huffman=True) + qstr(b"\xff", 7, 0, huffman=True)])),
            ]
            data = fr(1, opts[k % len(opts)])
        elif v == 4:  # blocked on missing dynamic entries, then FIN, then maybe an insert that unblocks
            ric = ctx.dyn + 1 + (k % 3)
            extra_name = [b"x-ok", b"X-Bad", b"\xff\xfe", b":late"][(k // 3) % 4]
            # the blocked section is parsed only when it gets unblocked: a malformed field line in it (post-base index
            # beyond the table, dynamic reference out of range, truncated literal) surfaces at *resume* time
            tail = [[], [pint(5, 4, 0x10)], [f_dynamic(ric + 7)], [qstr(b"name", 3, 0x20)]][(k // 4) % 4]
            blk = block(valid_message_fields(role) + [f_dynamic(0)] + tail, ric=ric)
            segs.append((sid, fr(1, blk) + (fr(0, b"abc") if k % 2 else b""), bool(fin)))
            if not fin and k % 5 == 0:
                segs.append((sid, b"", True))
            enc = ctx.qenc
            pre = b""
            if enc is None:
                enc = ctx.new_uni()
                pre = V(2) + ei_capacity(4096)
            if (k // 12) % 3 == 0:
                ins = b"".join(ei_insert_literal(extra_name, b"\xffv%d" % i) for i in range(ric - ctx.dyn))
                segs.append((enc, pre + ins, False))
            elif (k // 12) % 3 == 1:
                segs.append((enc, pre + rbytes(rng, 20), False))
            return segs, ("request", "HEADERS-blocked")
        elif v == 5:  # more blocked streams than allowed
            n = 14 + k % 6
            for i in range(n):
                s = sid if i == 0 else ctx.new_req()
                segs.append((s, fr(1, block([f_dynamic(0)], ric=ctx.dyn + 1 + i)), i % 2 == 0 and bool(fin)))
            return segs, ("request", "HEADERS-blocked")
        elif v == 6:  # valid references into a populated table / out of range ones
            rel = [0, 1, max(ctx.dyn - 1, 0), ctx.dyn, ctx.dyn + 50][k % 5]
            ric = [ctx.dyn, max(ctx.dyn - 1, 0), 1][(k // 5) % 3]
            data = fr(1, block(valid_message_fields(role) + [f_dynamic(rel), pint(rel, 4, 0x40) + qstr(b"v")], ric=ric))
        else:  # headers frame split into HEADERS + declared too long
            data = fr(1, good, declared=len(good) + [1, 100, VMAX - len(good)][k % 3])
        return [(sid, data, bool(fin))], ("request", label)

    if fam == "qinstr":
        which, v, k, fin = p
        enc = which == 0
        sk = "qenc" if enc else "qdec"
        existing = ctx.qenc if enc else ctx.qdec
        pre = b""
        if existing is None:
            existing = ctx.new_uni()
            pre = V(2 if enc else 3)
        if v == 0:
            data = rbytes(rng, [1, 2, 3, 5, 8, 13, 40, 200, 2000][k % 9])
        elif enc:
            opts = [
                ei_capacity(4097), ei_capacity(VMAX), ei_capacity(0), ei_capacity(4096) + ei_capacity(0) + ei_capacity(4096),
                ei_insert_nameref(99, b"v"), ei_insert_nameref(VMAX, b"v"), ei_insert_nameref(0, b"v", static=False),
                ei_capacity(4096) + ei_insert_nameref(ctx.dyn + 5, b"v", static=False), ei_duplicate(0), ei_duplicate(VMAX),
                ei_capacity(4096) + ei_insert_literal(b"n", b"v") * 300, ei_capacity(4096) + ei_insert_literal(b"n" * 5000, b"v"),
                ei_insert_literal(b"n", b"v"), qstr(b"ab", 5, 0x40, declared=VMAX), qstr(b"ab", 5, 0x40) + qstr(b"c", declared=1 << 31),
                ei_capacity(4096) + qstr(b"\xff\xff\xff", 5, 0x40, huffman=True) + qstr(b"\xff\xff", huffman=True),
                ei_capacity(64) + ei_insert_literal(b"name-too-big-for-the-table", b"v" * 64),
                b"\x3f" + b"\xff" * 12, b"\xff" + b"\x80" * 20 + b"\x01",
                ei_capacity(4096) + ei_insert_literal(b"X-UPPER", b"\x00\xff") + ei_insert_literal(b"", b""),
            ]
            data = opts[k % len(opts)]
        else:
            opts = [
                di_section_ack(0), di_section_ack(VMAX), di_section_ack(4) * 50, di_cancel(0), di_cancel(VMAX),
                di_increment(0), di_increment(1), di_increment(VMAX), di_increment(1 << 32), di_increment(1) * 300,
                b"\x3f" + b"\xff" * 12, b"\xff" + b"\x80" * 20 + b"\x01", b"\x7f" + b"\xff" * 9 + b"\x7f",
                di_section_ack(ctx.open_req or 0), di_cancel(ctx.open_req or 0) + di_section_ack(ctx.open_req or 0),
            ]
            data = opts[k % len(opts)]
        return [(existing, pre + data, bool(fin))], (sk, "instr")

    if fam == "hdr":
        nc, vc, si, where, pos = p
        size = SIZES[si] if si >= 0 else -si  # a negative index is an explicit length (fine sweep of the close-reason boundary)
        if where == 0:
            name, value = make_name(NAME_CLASSES[nc], size), make_value(VALUE_CLASSES[vc], 3)
        elif where == 1:
            name, value = make_name(NAME_CLASSES[nc], 6), make_value(VALUE_CLASSES[vc], size)
        else:
            name, value = make_name(NAME_CLASSES[nc], size), make_value(VALUE_CLASSES[vc], size)
        field = f_literal(name, value)
        if pos == 0:  # first HEADERS
            sid = ctx.new_req()
            data = fr(1, block(valid_message_fields(role, [field])))
            fk = "HEADERS"
        elif pos == 1:  # trailers
            sid = ctx.new_req()
            data = valid_headers_frame(role) + fr(0, b"b") + fr(1, block([field]))
            fk = "HEADERS-trailers"
        elif pos == 2:  # push promise (meaningful for a client)
            sid = ctx.new_req()
            data = valid_headers_frame(role) + fr(5, V(2) + block(valid_request_fields([field])))
            fk = "PUSH_PROMISE"
        elif pos == 3:  # the hostile field *before* the pseudo headers / alone
            sid = ctx.new_req()
            data = fr(1, block([field]))
            fk = "HEADERS"
        elif pos == 4:  # via the dynamic table
            enc = ctx.qenc
            pre = b""
            if enc is None:
                enc = ctx.new_uni()
                pre = V(2) + ei_capacity(4096)
            sid = ctx.new_req()
            segs = [(enc, pre + ei_insert_literal(name[:3000], value[:900]), False),
                    (sid, fr(1, block(valid_message_fields(role) + [f_dynamic(0)], ric=ctx.dyn + 1)), True)]
            return segs, ("request", "HEADERS-dynamic")
        else:  # push stream headers
            sid = ctx.new_uni()
            data = V(1) + V(ctx.next_push_id()) + fr(1, block(valid_response_fields([field])))
            return [(sid, data, True)], ("push", "HEADERS")
        return [(sid, data, True)], ("request", fk)

    if fam == "pseudo":
        # request pseudo-header combinations (absent / empty / unusual values), as a request to a server victim or inside
        # a PUSH_PROMISE to a client victim; response :status spellings on a response or a push stream
        mi, si, ai, pi, pr, pos = p
        fields = []
        for name, val in () if pos == 3 else ((b":method", PSEUDO_METHOD[mi]), (b":scheme", PSEUDO_SCHEME[si]), (b":authority", PSEUDO_AUTHORITY[ai]),
                          (b":path", PSEUDO_PATH[pi]), (b":protocol", PSEUDO_PROTOCOL[pr])):
            if val is not None:
                fields.append(f_literal(name, val))
        if pos == 3:
            fields = [f_literal(b":status", PSEUDO_STATUS[mi % len(PSEUDO_STATUS)])]
        sid = ctx.new_req()
        if role == "server":
            return [(sid, fr(1, block(fields)), True)], ("request", "HEADERS-pseudo")
        if pos == 3:
            return [(sid, fr(1, block(fields)), True)], ("request", "HEADERS-status")
        return [(sid, valid_headers_frame(role) + fr(5, V(2) + block(fields)), True)], ("request", "PUSH_PROMISE-pseudo")

    if fam == "dgram":
        (v,) = p
        opts = [b"", V(0), V(0) + b"x", V(5, 8)[:1], V(5, 8)[:4], V(5, 8)[:7], V(5, 2)[:1], V(5, 4)[:3], V(VMAX), V(VMAX) + b"payload",
                V(1) + b"z" * 65000, b"\xff" * 65535, V(0, 8) + b"", rbytes(rng, 30), b"\xc0", b"\x80\x00", V(3) * 500]
        return [("dgram", opts[v % len(opts)], False)], ("datagram", "datagram")

    if fam == "wt":
        v, k, fin = p
        if v == 0:  # uni
            opts = [V(0x54), V(0x54) + V(4), V(0x54) + V(4) + b"data", V(0x54) + V(VMAX) + b"d", V(0x54, 8) + V(4, 8)[:3],
                    V(0x54, 4)[:2], V(0x54) + V(4) + fr(4, b"") + fr(1, b"\xff"), V(0x54) + V(0) + rbytes(rng, 3000)]
            return [(ctx.new_uni(), opts[k % len(opts)], bool(fin))], ("wt_uni", "wt")
        sid = ctx.new_req() if v == 1 else ctx.new_srvbidi()
        opts = [V(0x41), V(0x41) + V(4), V(0x41) + V(4) + b"data", V(0x41) + V(VMAX) + b"d", V(0x41, 8) + V(4, 8)[:3],
                V(0x41) + V(4) + fr(4, b"") + fr(1, b"\xff"), V(0x41) + V(0) + rbytes(rng, 3000), V(0x41) + V(0) + V(0x41) + V(1),
                valid_headers_frame(role) + V(0x41) + V(8) + b"after-headers", fr(0, b"") + V(0x41) + V(8)]
        segs = [(sid, opts[k % len(opts)], False)]
        if k % 3 == 0:
            segs.append((sid, rbytes(rng, 40), False))
        if fin:
            segs.append((sid, b"" if k % 2 else b"last", True))
        return segs, ("wt_bidi" if v == 1 else "srv_bidi", "wt")

    if fam == "unknown_uni":
        ti, k, fin = p
        types = [0x4, 0x5, 0x21, 0x40, 0x53, 0x55, 0x5F, 0x3FFF, 0x4000, GREASE_BIG, VMAX, 0x1F * 7 + 0x21]
        t = types[ti % len(types)]
        body = [b"", b"x", fr(4, b""), rbytes(rng, 100), V(0) + fr(4, b""), rbytes(rng, 5000)][k % 6]
        return [(ctx.new_uni(), V(t, 8 if k % 2 else None) + body, bool(fin))], ("unknown_uni", "unknown")

    if fam == "rand":
        (seed,) = p
        r = random.Random(seed)
        segs = []
        kinds = []
        streams = {}
        for _ in range(r.randrange(1, 7)):
            target = r.choice(["request", "request", "control", "push", "srv_bidi", "qenc", "qdec", "dgram", "wt_uni", "unknown"])
            if target == "dgram":
                segs.append(("dgram", rbytes(r, r.choice([0, 1, 2, 9])) if r.random() < 0.5 else V(r.randrange(1 << r.choice([3, 10, 40]))) + b"p", False))
                kinds.append("datagram")
                continue
            if target in streams and r.random() < 0.7:
                sid = streams[target]
                pre = b""
            else:
                if target in ("qenc", "qdec"):
                    ex = ctx.qenc if target == "qenc" else ctx.qdec
                    if ex is not None and r.random() < 0.8:
                        sid, pre = ex, b""
                    else:
                        sid, pre = ctx.new_uni(), V(2 if target == "qenc" else 3)
                elif target == "wt_uni":
                    sid, pre = ctx.new_uni(), V(0x54) + V(r.randrange(4) * 4)
                elif target == "unknown":
                    sid, pre = ctx.new_uni(), V(r.choice([0x21, 0x7, 0x99, VMAX]))
                else:
                    sid, pre, _sk = open_target(ctx, target, same=r.random() < 0.6, with_settings=r.random() < 0.6)
                streams[target] = sid
            if sid in ctx.finished:
                continue
            data = pre
            if target in ("qenc", "qdec"):
                if r.random() < 0.5:
                    data += rbytes(r, r.choice([1, 2, 5, 30]))
                elif target == "qenc":
                    data += r.choice([ei_capacity(r.choice([0, 100, 4096, 5000])), ei_insert_literal(rbytes(r, r.randrange(1, 9)), rbytes(r, r.randrange(9))),
                                       ei_insert_nameref(r.randrange(110), b"v"), ei_duplicate(r.randrange(4))])
                else:
                    data += r.choice([di_section_ack(r.randrange(3) * 4), di_cancel(r.randrange(3) * 4), di_increment(r.randrange(3))])
            elif target in ("wt_uni", "unknown"):
                data += rbytes(r, r.choice([0, 1, 50]))
            else:
                for _j in range(r.randrange(1, 5)):
                    t = r.choice([0, 0, 1, 1, 1, 3, 4, 5, 7, 0xD, 0xE, 2, 0x21, 0x41, r.choice(GRID_TYPES)])
                    pl = _plausible_payload(t, r, ctx)
                    declared = None
                    if r.random() < 0.12:
                        declared = r.choice([0, len(pl) + 1, max(len(pl) - 1, 0), 100000, VMAX])
                    data += fr(t, pl, declared, tsize=r.choice([None, None, 8]), lsize=r.choice([None, None, 8]))
                if r.random() < 0.15:
                    data = data[: r.randrange(len(data) + 1)]
            fin = r.random() < 0.3
            if not data and not fin:
                continue
            segs.append((sid, data, fin))
            if fin:
                ctx.finished.add(sid)
            kinds.append(target)
        if not segs:
            segs.append(("dgram", b"", False))
            kinds.append("datagram")
        return segs, (kinds[0], "random")

    if fam == "h0":
        li, sk, fin, dbl = p
        name, line = H0_LINES[li]
        if sk == 0:
            sid, label = ctx.new_req(), "request"
        elif sk == 1:
            sid, label = ctx.new_uni(), "uni"
        elif sk == 2:
            sid, label = ctx.new_srvbidi(), "srv_bidi"
        else:
            sid, label = (ctx.open_req if ctx.open_req is not None else ctx.new_req()), "request"
        segs = [(sid, line, bool(fin) and not dbl)] if (line or fin) else [(sid, b"", True)]
        if dbl:
            segs.append((sid, b"more body\r\n" if dbl == 1 else b"", bool(fin) or dbl == 2))
        return segs, (label, "h0:" + name)

    raise KeyError(fam)


# ------------------------------------------------------------------ enumeration of cases

H3_PREFIXES = ["fresh", "ctrl", "ctrl_dyn", "req_done", "req_open", "req_trailers", "req_blocked", "ctrl_stopped", "ctrl_stopped_late"]
H0_PREFIXES = ["fresh", "req_done", "req_open"]


def enumerate_cases(proto, role, prefix, tier, seed):
    """Deterministic list of case dicts (without chunking) for one (proto, role, prefix)."""
    rng = random.Random("enum/%s/%s/%s/%d" % (proto, role, prefix, seed))
    out = []
    thorough = tier == "thorough"
    if proto == "h0":
        for li in range(len(H0_LINES)):
            for sk in range(4):
                for fin in (0, 1):
                    for dbl in (0, 1, 2):
                        if H0_LINES[li][0].startswith("big") and not thorough and rng.random() < 0.5:
                            continue
                        out.append({"fam": "h0", "p": [li, sk, fin, dbl]})
        return out

    # grid: every type x length x target; payload mode / fin / mode sampled in quick, full in thorough
    for ti in range(len(GRID_TYPES)):
        for li in range(GRID_LENGTHS):
            for tgt in range(len(FRAMED_TARGETS)):
                if thorough:
                    combos = [(pm, fin, mode) for pm in range(3) for fin in (0, 1) for mode in range(4)]
                    combos = rng.sample(combos, 6)
                else:
                    combos = [(rng.randrange(3), rng.randrange(2), rng.randrange(4))]
                for pm, fin, mode in combos:
                    out.append({"fam": "grid", "p": [ti, li, pm, fin, tgt, mode]})
    cp = corpus(role)
    for ki, kind in enumerate(sorted(cp)):
        for cut in range(0, len(cp[kind]) + 1):
            for fin in (0, 1):
                if cut == 0 and not fin:
                    continue
                if not thorough and prefix not in ("fresh", "ctrl") and rng.random() < 0.6:
                    continue
                out.append({"fam": "trunc", "p": [ki, cut, fin]})
    nset = len(settings_variants())
    for vi in range(nset):
        for place in range(6):
            if not thorough and place not in (0, 1) and rng.random() < 0.5:
                continue
            out.append({"fam": "settings", "p": [vi, place, rng.randrange(2)]})
    for ti in range(len(ID_FRAME_TYPES)):
        for vi in range(len(idframe_variants())):
            for tgt in range(3):
                for ps in ((0, 1, 2) if tgt == 0 else (1,)):
                    out.append({"fam": "idframe", "p": [ti, vi, tgt, ps]})
    for which in range(3):
        for action in range(5):
            out.append({"fam": "critical", "p": [which, action]})
    for v in range(27 * 4):
        out.append({"fam": "order", "p": [v]})
    for v in range(28):
        for tgt in range(3):
            out.append({"fam": "pp", "p": [v, tgt, rng.randrange(2)]})
    for v, ks in ((0, 20), (1, 60), (2, 16), (3, 6), (4, 72), (5, 6), (6, 15), (7, 3)):
        for k in range(ks):
            for fin in (0, 1):
                out.append({"fam": "qblock", "p": [v, k, fin]})
    for which in range(2):
        for k in range(18):
            out.append({"fam": "qinstr", "p": [which, 0, k, k % 2]})
        for k in range(20 if which == 0 else 15):
            for f in (0, 1):
                out.append({"fam": "qinstr", "p": [which, 1, k, f]})
    # header names / values
    for nc in range(len(NAME_CLASSES)):
        for vc in range(len(VALUE_CLASSES)):
            for si in range(len(SIZES)):
                big = SIZES[si] >= 16000
                if big and not thorough and rng.random() < 0.85:
                    continue
                if not thorough and rng.random() < 0.55:
                    continue
                out.append({"fam": "hdr", "p": [nc, vc, si, rng.randrange(3), rng.randrange(6)]})
    for pos in range(6):  # make sure the boundary sizes of the close reason are always present
        for si in range(len(SIZES)):
            if SIZES[si] > 3000 and not thorough and pos > 1:
                continue
            out.append({"fam": "hdr", "p": [1, 0, si, 0, pos]})
            out.append({"fam": "hdr", "p": [0, 1, si, 1, pos]})
    # the error text quotes the offending name: sweep its length byte by byte across the point where the close reason
    # stops fitting into the closing packet (the reason must be trimmed, the closing packet must still go out)
    for L in range(1040, 1260):
        out.append({"fam": "hdr", "p": [1, 0, -L, 0, (0, 3)[L % 2]]})
    for mi in range(len(PSEUDO_METHOD)):
        for si in range(len(PSEUDO_SCHEME)):
            for ai in range(len(PSEUDO_AUTHORITY)):
                for pi in range(len(PSEUDO_PATH)):
                    for pr in range(len(PSEUDO_PROTOCOL)):
                        if not thorough and rng.random() < 0.6:
                            continue
                        out.append({"fam": "pseudo", "p": [mi, si, ai, pi, pr, 0]})
    for mi in range(len(PSEUDO_STATUS)):
        out.append({"fam": "pseudo", "p": [mi, 0, 0, 0, 0, 3]})
    for v in range(17):
        out.append({"fam": "dgram", "p": [v]})
    for v in range(3):
        for k in range(10):
            for fin in (0, 1):
                out.append({"fam": "wt", "p": [v, k, fin]})
    for ti in range(12):
        for k in range(6):
            out.append({"fam": "unknown_uni", "p": [ti, k, rng.randrange(2)]})
    return out
