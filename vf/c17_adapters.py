"""C17 — adapters between aioquic's codecs and the reference value model, and the
bytes->values oracle. Imported only inside the child (imports aioquic lazily)."""

from __future__ import annotations

import dataclasses
import ipaddress

from . import c17_refcodec as R
from .common import exc_signature, exc_witness

TLS_MSGS = ("client_hello", "server_hello", "encrypted_extensions", "certificate_request",
            "certificate", "certificate_verify", "finished", "new_session_ticket")
TLS_FN = {
    "client_hello": ("pull_client_hello", "push_client_hello"),
    "server_hello": ("pull_server_hello", "push_server_hello"),
    "encrypted_extensions": ("pull_encrypted_extensions", "push_encrypted_extensions"),
    "certificate_request": ("pull_certificate_request", "push_certificate_request"),
    "certificate": ("pull_certificate", "push_certificate"),
    "certificate_verify": ("pull_certificate_verify", "push_certificate_verify"),
    "finished": ("pull_finished", "push_finished"),
    "new_session_ticket": ("pull_new_session_ticket", "push_new_session_ticket"),
}
CODECS = ("varint", "ack", "header", "tp") + TLS_MSGS


class AQ:
    """lazy handle on the staged aioquic modules"""

    _inst = None

    def __init__(self):
        import aioquic.buffer as buffer
        import aioquic.quic.packet as packet
        import aioquic.quic.packet_builder as packet_builder
        import aioquic.quic.rangeset as rangeset
        import aioquic.tls as tls

        self.buffer, self.packet, self.pb, self.rangeset, self.tls = buffer, packet, packet_builder, rangeset, tls
        self.Buffer = buffer.Buffer
        self.DOC = (ValueError, tls.Alert)  # documented parse errors (BufferReadError is a ValueError)

    @classmethod
    def get(cls):
        if cls._inst is None:
            cls._inst = AQ()
        return cls._inst


def listify(x):
    if isinstance(x, (list, tuple)):
        return [listify(i) for i in x]
    if isinstance(x, dict):
        return {k: listify(v) for k, v in x.items()}
    if isinstance(x, (bytes, bytearray)):
        return bytes(x)
    if isinstance(x, bool) or x is None:
        return x
    if isinstance(x, int):
        return int(x)
    return x


def is_ascii(b):
    try:
        b.decode("ascii")
        return True
    except UnicodeDecodeError:
        return False


# ------------------------------------------------------------------ TLS value conversions


def tls_to_aq(msg, v):
    T = AQ.get().tls
    oth = [(t, bytes(b)) for t, b in v.get("other_extensions") or []]
    if msg == "client_hello":
        psk = v["pre_shared_key"]
        return T.ClientHello(
            random=v["random"], legacy_session_id=v["legacy_session_id"],
            cipher_suites=list(v["cipher_suites"]),
            legacy_compression_methods=list(v["legacy_compression_methods"]),
            alpn_protocols=None if v["alpn_protocols"] is None else [b.decode("ascii") for b in v["alpn_protocols"]],
            early_data=bool(v["early_data"]),
            key_share=None if v["key_share"] is None else [(g, bytes(d)) for g, d in v["key_share"]],
            pre_shared_key=None if psk is None else T.OfferedPsks(
                identities=[(bytes(i), a) for i, a in psk["identities"]], binders=[bytes(b) for b in psk["binders"]]),
            psk_key_exchange_modes=None if v["psk_key_exchange_modes"] is None else list(v["psk_key_exchange_modes"]),
            server_name=None if v["server_name"] is None else v["server_name"].decode("ascii"),
            signature_algorithms=None if v["signature_algorithms"] is None else list(v["signature_algorithms"]),
            supported_groups=None if v["supported_groups"] is None else list(v["supported_groups"]),
            supported_versions=None if v["supported_versions"] is None else list(v["supported_versions"]),
            other_extensions=oth)
    if msg == "server_hello":
        ks = v["key_share"]
        return T.ServerHello(random=v["random"], legacy_session_id=v["legacy_session_id"],
                             cipher_suite=v["cipher_suite"], compression_method=v["compression_method"],
                             key_share=None if ks is None else (ks[0], bytes(ks[1])),
                             pre_shared_key=v["pre_shared_key"], supported_version=v["supported_version"],
                             other_extensions=oth)
    if msg == "encrypted_extensions":
        return T.EncryptedExtensions(
            alpn_protocol=None if v["alpn_protocol"] is None else v["alpn_protocol"].decode("ascii"),
            early_data=bool(v["early_data"]), other_extensions=oth)
    if msg == "certificate_request":
        return T.CertificateRequest(
            request_context=v["request_context"],
            signature_algorithms=None if v["signature_algorithms"] is None else list(v["signature_algorithms"]),
            other_extensions=oth)
    if msg == "certificate":
        return T.Certificate(request_context=v["request_context"],
                             certificates=[(bytes(c), bytes(e)) for c, e in v["certificates"]])
    if msg == "certificate_verify":
        return T.CertificateVerify(algorithm=v["algorithm"], signature=v["signature"])
    if msg == "finished":
        return T.Finished(verify_data=v["verify_data"])
    if msg == "new_session_ticket":
        return T.NewSessionTicket(ticket_lifetime=v["ticket_lifetime"], ticket_age_add=v["ticket_age_add"],
                                  ticket_nonce=v["ticket_nonce"], ticket=v["ticket"],
                                  max_early_data_size=v["max_early_data_size"], other_extensions=oth)
    raise AssertionError(msg)


def tls_form_aq(msg, obj):
    """aioquic dataclass -> comparable form (lists, bytes for names)"""
    d = listify(dataclasses.asdict(obj))
    if msg == "client_hello":
        if d["alpn_protocols"] is not None:
            d["alpn_protocols"] = [s.encode("ascii") for s in d["alpn_protocols"]]
        if d["server_name"] is not None:
            d["server_name"] = d["server_name"].encode("ascii")
    elif msg == "encrypted_extensions":
        if d["alpn_protocol"] is not None:
            d["alpn_protocol"] = d["alpn_protocol"].encode("ascii")
    return d


def tls_form_ref(msg, v):
    """reference value -> comparable form, in aioquic's *view* of the value: ALPN names
    that are not ASCII are not part of aioquic's model (pinned by test_pull_greased_alpn_list)."""
    d = listify(v)
    d.setdefault("other_extensions", [])
    if msg in ("certificate", "certificate_verify", "finished"):
        d.pop("other_extensions")
    if msg == "client_hello" and d["alpn_protocols"] is not None:
        d["alpn_protocols"] = [b for b in d["alpn_protocols"] if is_ascii(b)]
    return d


# ------------------------------------------------------------------ transport parameters


def tp_to_aq(v):
    P = AQ.get().packet
    kw = {}
    for pid, (name, kind) in R.TP.items():
        x = v.get(name)
        if kind == "flag":
            kw[name] = bool(x)
        elif x is None:
            kw[name] = None
        elif kind == "preferred_address":
            kw[name] = P.QuicPreferredAddress(
                ipv4_address=None if x["ipv4"] is None else (str(ipaddress.IPv4Address(x["ipv4"][0])), x["ipv4"][1]),
                ipv6_address=None if x["ipv6"] is None else (str(ipaddress.IPv6Address(x["ipv6"][0])), x["ipv6"][1]),
                connection_id=x["connection_id"], stateless_reset_token=x["stateless_reset_token"])
        elif kind == "version_information":
            kw[name] = P.QuicVersionInformation(chosen_version=x["chosen_version"],
                                                available_versions=list(x["available_versions"]))
        else:
            kw[name] = x
    return P.QuicTransportParameters(**kw)


def tp_form_aq(obj):
    return listify(dataclasses.asdict(obj))


def tp_form_ref(v):
    """reference params -> aioquic's view: an all-zero address means 'absent' (RFC 9000 §18.2)"""
    out = {}
    for pid, (name, kind) in R.TP.items():
        x = v.get(name)
        if kind == "flag":
            out[name] = bool(x)
        elif x is None:
            out[name] = None
        elif kind == "preferred_address":
            a4, a6 = x["ipv4"], x["ipv6"]
            out[name] = {
                "ipv4_address": None if a4 is None or a4[0] == bytes(4) else [str(ipaddress.IPv4Address(a4[0])), a4[1]],
                "ipv6_address": None if a6 is None or a6[0] == bytes(16) else [str(ipaddress.IPv6Address(a6[0])), a6[1]],
                "connection_id": x["connection_id"], "stateless_reset_token": x["stateless_reset_token"]}
        else:
            out[name] = listify(x)
    return out


# ------------------------------------------------------------------ headers


class FakeCrypto:
    """stands in for CryptoPair so that QuicPacketBuilder's header bytes stay readable:
    'encryption' appends a 16-byte zero tag and leaves the header unprotected."""

    aead_tag_size = 16

    def __init__(self, key_phase=0):
        self.key_phase = key_phase

    def encrypt_packet(self, plain_header, plain_payload, packet_number):
        return plain_header + plain_payload + bytes(16)


def ptype_name(pt):
    return pt.name.lower()


def ptype_enum(name):
    return getattr(AQ.get().packet.QuicPacketType, name.upper())


def header_form_aq(h):
    return {"version": h.version, "ptype": ptype_name(h.packet_type), "dcid": bytes(h.destination_cid),
            "scid": bytes(h.source_cid), "token": bytes(h.token), "tag": bytes(h.integrity_tag),
            "versions": list(h.supported_versions), "packet_length": h.packet_length}


def header_form_ref(h):
    return {"version": h["version"], "ptype": h["ptype"], "dcid": h["dcid"], "scid": h["scid"],
            "token": h["token"], "tag": h["tag"], "versions": list(h["versions"]),
            "packet_length": h["packet_length"]}


def build_packet(version, ptype, dcid, scid, token=b"", pn=0, extra=0, spin=False, key_phase=0,
                 is_client=True, max_datagram_size=1200):
    """Run the real QuicPacketBuilder with FakeCrypto. returns (datagram, sent_packet)"""
    aq = AQ.get()
    b = aq.pb.QuicPacketBuilder(host_cid=scid, peer_cid=dcid, version=version, is_client=is_client,
                                max_datagram_size=max_datagram_size, packet_number=pn, peer_token=token,
                                spin_bit=spin)
    b.start_packet(ptype_enum(ptype), FakeCrypto(key_phase))
    buf = b.start_frame(aq.packet.QuicFrameType.PING)
    if extra:
        buf.push_bytes(bytes(extra))
    datagrams, packets = b.flush()
    return datagrams[0], packets[0]


# ------------------------------------------------------------------ uniform decode / encode entry points


def aq_decode(codec, data, arg=None):
    """returns (aioquic value, comparable form, consumed or None). Raises whatever aioquic raises."""
    aq = AQ.get()
    buf = aq.Buffer(data=data)
    if codec == "varint":
        v = buf.pull_uint_var()
        return v, v, buf.tell()
    if codec == "ack":
        rs, delay = aq.packet.pull_ack_frame(buf)
        return (rs, delay), {"ranges": [[r.start, r.stop - 1] for r in rs], "delay": delay}, buf.tell()
    if codec == "header":
        h = aq.packet.pull_quic_header(buf, host_cid_length=arg or 0)
        return h, header_form_aq(h), None
    if codec == "tp":
        p = aq.packet.pull_quic_transport_parameters(buf)
        return p, tp_form_aq(p), buf.tell()
    obj = getattr(aq.tls, TLS_FN[codec][0])(buf)
    return obj, tls_form_aq(codec, obj), buf.tell()


def aq_encode(codec, obj, cap):
    aq = AQ.get()
    if codec == "header":
        h = obj
        name = ptype_name(h.packet_type)
        if name == "version_negotiation":
            return aq.packet.encode_quic_version_negotiation(
                source_cid=h.source_cid, destination_cid=h.destination_cid, supported_versions=h.supported_versions)
        if name == "retry":
            return aq.packet.encode_quic_retry(version=h.version, source_cid=h.source_cid,
                                               destination_cid=h.destination_cid,
                                               original_destination_cid=b"", retry_token=h.token)
        d, _ = build_packet(h.version if h.version is not None else 1, name, h.destination_cid, h.source_cid,
                            token=h.token, max_datagram_size=max(1200, len(h.token) + 400))
        return d
    buf = aq.Buffer(capacity=cap)
    if codec == "varint":
        buf.push_uint_var(obj)
    elif codec == "ack":
        aq.packet.push_ack_frame(buf, obj[0], obj[1])
    elif codec == "tp":
        aq.packet.push_quic_transport_parameters(buf, obj)
    else:
        getattr(aq.tls, TLS_FN[codec][1])(buf, obj)
    return buf.data


def ref_decode(codec, data, arg=None):
    """returns (comparable form in aioquic's view, notes, consumed or None). Raises R.Reject."""
    if codec == "varint":
        v, n = R.dec_varint(data)
        return v, [], n
    if codec == "ack":
        ranges, delay, n = R.dec_ack(data)
        return {"ranges": [list(x) for x in ranges], "delay": delay}, [], n
    if codec == "header":
        h = R.dec_header(data, arg or 0)
        return header_form_ref(h), h["notes"], None
    if codec == "tp":
        v, meta = R.dec_transport_parameters(data)
        return tp_form_ref(v), meta["notes"], len(data)
    v, meta = R.dec_handshake(codec, data)
    return tls_form_ref(codec, v), meta["notes"], meta["consumed"]


REENCODE_SKIP_KEYS = {"header": ("packet_length", "tag")}


def _strip(codec, form):
    if codec == "header":
        return {k: v for k, v in form.items() if k not in REENCODE_SKIP_KEYS["header"]}
    return form


def overrun_signature(codec, rej):
    if rej.ext is not None:
        return "codec:tls-extension:reads-past-extension-length:%s" % rej.ext
    leaf = rej.where.rsplit("/", 1)[-1]
    if codec in R.MODELLED and leaf == "extensions" and "field ext:" in rej.detail:
        return "codec:tls-extension:declared-length-past-extensions-block-accepted"
    return "codec:%s:accepts-length-exceeding-enclosing-field:%s" % (codec, leaf)


def check_bytes(codec, data, arg, res, kind):
    """bytes -> values oracle for one input. Returns an outcome label (for signatures)."""
    aq = AQ.get()
    case = {"gen": "replay_bytes", "codec": codec, "hex": bytes(data).hex(), "arg": arg}
    res.count(codec + "_bytes_cases")
    # ---- aioquic
    a_ok = False
    try:
        obj, aform, aused = aq_decode(codec, data, arg)
        a_ok = True
    except aq.DOC as exc:
        a_out = "rej:" + ("Alert" if isinstance(exc, aq.tls.Alert) else "BufferReadError"
                          if isinstance(exc, aq.buffer.BufferReadError) else "ValueError")
    except Exception as exc:  # undocumented exception type
        res.violation(exc_signature(exc, "codec:%s:decode:" % codec),
                      "decoding %d bytes (%s) raised %r, which is neither ValueError nor tls.Alert" % (len(data), kind, exc),
                      case, exc_witness(exc))
        res.count(codec + "_decode_undocumented_exception")
        a_out = "exc:" + type(exc).__name__
    # ---- reference
    r_ok = False
    rej = None
    try:
        rform, notes, rused = ref_decode(codec, data, arg)
        r_ok = True
        r_out = "ok+notes" if notes else "ok"
    except R.Reject as exc:
        rej = exc
        r_out = exc.cls
    res.count("%s_ref_%s" % (codec, r_out))
    if not a_ok:
        res.count("%s_aq_%s" % (codec, a_out.replace(":", "_")))
        if r_ok and a_out.startswith("rej:"):
            res.count(codec + "_obs_aioquic_stricter_than_reference")
        return a_out + "|" + r_out
    res.count(codec + "_aq_accept")
    # ---- re-encode equivalence
    try:
        enc = aq_encode(codec, obj, 2 * len(data) + 70000)
        enc_ok = True
    except Exception as exc:
        enc_ok = False
        res.violation(exc_signature(exc, "codec:%s:reencode:" % codec),
                      "decoder returned a value that the encoder cannot encode (%r)" % exc, case,
                      dict(exc_witness(exc), value=repr(aform)[:1500]))
    if enc_ok:
        res.count(codec + "_reencoded")
        try:
            _, aform2, _ = aq_decode(codec, enc, len(aform["dcid"]) if codec == "header" else arg)
        except Exception as exc:
            res.violation("codec:%s:reencode-not-decodable" % codec,
                          "decode(encode(v)) raised %r for a value v returned by the decoder" % exc, case,
                          dict(exc_witness(exc), value=repr(aform)[:1500], reencoded=enc[:400].hex()))
        else:
            if _strip(codec, aform2) != _strip(codec, aform):
                res.violation("codec:%s:reencode-mismatch" % codec,
                              "decode(encode(v)) != v for a value v returned by the decoder", case,
                              {"v": repr(aform)[:1500], "v2": repr(aform2)[:1500]})
    # ---- against the strict reference
    if not r_ok:
        if rej.cls == R.OVERRUN:
            res.violation(overrun_signature(codec, rej),
                          "aioquic accepted an input in which a field exceeds the declared length of its enclosing "
                          "field (%s: %s)" % (rej.where, rej.detail), case,
                          {"reference_rejection": str(rej), "aioquic_value": repr(aform)[:1500]})
        else:
            res.count("%s_obs_lenient_%s" % (codec, rej.cls))
        return "ok|" + r_out
    res.count(codec + "_both_accept")
    if aform != rform:
        diff = ""
        if isinstance(aform, dict):
            diff = ",".join(sorted(k for k in aform if aform.get(k) != rform.get(k)))
        res.violation("codec:%s:decode-differs-from-reference" % codec,
                      "both decoders accept but the values differ (fields: %s)" % diff, case,
                      {"aioquic": repr(aform)[:1500], "reference": repr(rform)[:1500]})
    elif aused is not None and rused is not None and aused != rused:
        res.violation("codec:%s:consumed-differs-from-reference" % codec,
                      "same value but aioquic consumed %d bytes, reference %d" % (aused, rused), case)
    return "ok|" + r_out


# ------------------------------------------------------------------ mutation of annotated encodings


def lie_cases(data, lens):
    """yield (kind, bytes): every recorded length field altered by each delta"""
    for at, n, kind, name in lens:
        if kind == "fixed":
            cur = int.from_bytes(data[at : at + n], "big")
            mx = (1 << (8 * n)) - 1
            for new in (cur - 1, cur + 1, cur - 2, cur + 7, 0, mx, cur // 2):
                if 0 <= new <= mx and new != cur:
                    yield "lie:" + name.split(":")[0], data[:at] + new.to_bytes(n, "big") + data[at + n :]
        else:
            cur, _ = R.dec_varint(data[at : at + n])
            for new in (cur - 1, cur + 1, 0, cur + 8, (1 << (8 * n - 2)) - 1):
                if 0 <= new < 1 << (8 * n - 2) and new != cur:
                    yield "lie:tp", data[:at] + R.ref_varint(new, n) + data[at + n :]


def mutate_cases(data, lens, rng, nflips=24, keep_first=False):
    """length lies at every level, truncation at every byte, trailing garbage, byte flips, splices"""
    yield "valid", data
    yield from lie_cases(data, lens)
    step = 1 if len(data) <= 400 else len(data) // 200
    for i in range(1 if keep_first else 0, len(data), step):
        yield "trunc", data[:i]
    for extra in (b"\x00", bytes([rng.randrange(256)]), bytes(rng.randrange(256) for _ in range(5))):
        yield "trail", data + extra
    lo = 1 if keep_first else 0
    if len(data) > lo:
        for _ in range(nflips):
            d = bytearray(data)
            for _ in range(rng.choice((1, 1, 2, 3))):
                i = rng.randrange(lo, len(d))
                d[i] = rng.choice((0, 0xFF, d[i] ^ (1 << rng.randrange(8)), rng.randrange(256), (d[i] + 1) & 0xFF))
            yield "flip", bytes(d)
        for _ in range(nflips // 3):
            i = rng.randrange(lo, len(data))
            j = min(len(data), i + rng.choice((1, 2, 4)))
            yield "delete", data[:i] + data[j:]
            yield "insert", data[:i] + bytes(rng.randrange(256) for _ in range(rng.choice((1, 2, 4)))) + data[i:]
