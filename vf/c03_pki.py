"""C03 helper: throw-away PKI generated on the fly with `cryptography` (no aioquic code).

One CA (P-256) per process; leaf certificates for every key type the property names, plus the
deliberately unacceptable ones used by the negative-authentication cases.
"""

from __future__ import annotations

import datetime

from cryptography import x509
from cryptography.hazmat.primitives import hashes, serialization
from cryptography.hazmat.primitives.asymmetric import ec, ed448, ed25519, rsa

KEY_TYPES = ["rsa", "p256", "p384", "ed25519", "ed448"]


def _now():
    return datetime.datetime.now(datetime.timezone.utc)


def gen_key(kind: str):
    if kind == "rsa":
        return rsa.generate_private_key(public_exponent=65537, key_size=2048)
    if kind == "p256":
        return ec.generate_private_key(ec.SECP256R1())
    if kind == "p384":
        return ec.generate_private_key(ec.SECP384R1())
    if kind == "ed25519":
        return ed25519.Ed25519PrivateKey.generate()
    if kind == "ed448":
        return ed448.Ed448PrivateKey.generate()
    raise ValueError(kind)


def _sign_hash(issuer_key):
    if isinstance(issuer_key, (ed25519.Ed25519PrivateKey, ed448.Ed448PrivateKey)):
        return None
    return hashes.SHA256()


def _name(cn):
    return x509.Name([x509.NameAttribute(x509.NameOID.COMMON_NAME, cn)])


def _san(cn):
    """subject alternative name entry: an iPAddress for an IP literal, a dNSName otherwise"""
    import ipaddress

    try:
        return x509.IPAddress(ipaddress.ip_address(cn))
    except ValueError:
        return x509.DNSName(cn)


class Pki:
    def __init__(self):
        self._keys = {}
        self._leaf = {}
        self.ca_key = ec.generate_private_key(ec.SECP256R1())
        self.ca_cert = self._make_ca("vf C03 throw-away CA", self.ca_key)
        self.other_ca_key = ec.generate_private_key(ec.SECP256R1())
        self.other_ca_cert = self._make_ca("vf C03 untrusted CA", self.other_ca_key)
        # intermediates: one under the trusted CA (positive control for chain building), one under the rogue root
        self.inter_key = ec.generate_private_key(ec.SECP256R1())
        self.inter_cert = self._make_ca("vf C03 trusted intermediate", self.inter_key, issuer=(self.ca_cert, self.ca_key))
        self.other_inter_key = ec.generate_private_key(ec.SECP256R1())
        self.other_inter_cert = self._make_ca("vf C03 untrusted intermediate", self.other_inter_key, issuer=(self.other_ca_cert, self.other_ca_key))

    @staticmethod
    def _make_ca(cn, key, issuer=None):
        return (
            x509.CertificateBuilder()
            .subject_name(_name(cn))
            .issuer_name(_name(cn) if issuer is None else issuer[0].subject)
            .public_key(key.public_key())
            .serial_number(x509.random_serial_number())
            .not_valid_before(_now() - datetime.timedelta(days=2))
            .not_valid_after(_now() + datetime.timedelta(days=30))
            .add_extension(x509.BasicConstraints(ca=True, path_length=None), critical=True)
            .sign(key if issuer is None else issuer[1], hashes.SHA256())
        )

    def chain_for(self, flavour: str):
        """certificates the server sends after its leaf for the given flavour"""
        return {
            "untrusted-ca+root-in-chain": [self.other_ca_cert],
            "untrusted-inter+root-in-chain": [self.other_inter_cert, self.other_ca_cert],
            "untrusted-inter-in-chain": [self.other_inter_cert],
            "good-via-intermediate": [self.inter_cert],
            "good+ca-in-chain": [self.ca_cert],
        }.get(flavour, [])

    @property
    def ca_pem(self) -> bytes:
        return self.ca_cert.public_bytes(serialization.Encoding.PEM)

    def key(self, kind: str, slot: int = 0):
        k = self._keys.get((kind, slot))
        if k is None:
            k = self._keys[(kind, slot)] = gen_key(kind)
        return k

    def leaf(self, kind: str, flavour: str = "good", cn: str = "localhost"):
        """returns (certificate, private_key). flavours:
        good          CA-signed, SAN = cn, currently valid
        wrong-name    CA-signed for 'other.example'
        expired       CA-signed, validity ended yesterday
        not-yet       CA-signed, validity starts tomorrow
        self-signed   self-signed for cn (not in the trust store)
        untrusted-ca  signed by a CA the client does not trust
        untrusted-ca+root-in-chain / untrusted-inter+root-in-chain / untrusted-inter-in-chain
                      as above, and the server also sends the rogue root / intermediate after its leaf (chain_for)
        good-via-intermediate   signed by an intermediate of the trusted CA which the server sends along (must complete)
        good+ca-in-chain        good leaf, the trusted CA itself sent along (must complete)
        """
        ck = (kind, flavour, cn)
        if ck in self._leaf:
            return self._leaf[ck]
        key = self.key(kind)
        subject_cn = "other.example" if flavour == "wrong-name" else cn
        nb, na = _now() - datetime.timedelta(days=1), _now() + datetime.timedelta(days=10)
        if flavour == "expired":
            nb, na = _now() - datetime.timedelta(days=10), _now() - datetime.timedelta(days=1)
        elif flavour == "not-yet":
            nb, na = _now() + datetime.timedelta(days=1), _now() + datetime.timedelta(days=10)
        if flavour == "self-signed":
            issuer_name, issuer_key = _name(subject_cn), key
        elif flavour in ("untrusted-ca", "untrusted-ca+root-in-chain"):
            issuer_name, issuer_key = self.other_ca_cert.subject, self.other_ca_key
        elif flavour in ("untrusted-inter+root-in-chain", "untrusted-inter-in-chain"):
            issuer_name, issuer_key = self.other_inter_cert.subject, self.other_inter_key
        elif flavour == "good-via-intermediate":
            issuer_name, issuer_key = self.inter_cert.subject, self.inter_key
        else:
            issuer_name, issuer_key = self.ca_cert.subject, self.ca_key
        cert = (
            x509.CertificateBuilder()
            .subject_name(_name(subject_cn))
            .issuer_name(issuer_name)
            .public_key(key.public_key())
            .serial_number(x509.random_serial_number())
            .not_valid_before(nb)
            .not_valid_after(na)
            .add_extension(x509.SubjectAlternativeName([_san(subject_cn)]), critical=False)
            .sign(issuer_key, _sign_hash(issuer_key))
        )
        self._leaf[ck] = (cert, key)
        return cert, key


_PKI = None


def pki() -> Pki:
    global _PKI
    if _PKI is None:
        _PKI = Pki()
    return _PKI
