"""C05 helpers: victim driver (totality monitor), key-holding peer, state preparation.

Everything that imports aioquic does so inside functions (child side only).

Terminology
    victim  the real QuicConnection under observation (client or server)
    peer    harness-side key-holding endpoint that builds arbitrary protected packets with
            vf.refcrypto / vf.frames (no aioquic code on the build path)
    genuine the real aioquic endpoint on the other side, used only to bring the victim into a
            state and to learn secrets / plaintext TLS flights
"""

from __future__ import annotations

import copy
import io

from . import frames as F
from . import refcrypto as rc
from .simnet import CLIENT_ADDR, SERVER_ADDR, ApiRaised, make_configs

V1 = rc.V1
V2 = rc.V2
VERS = {"v1": V1, "v2": V2}
TYPE_CODE = {
    V1: {"initial": 0, "0rtt": 1, "handshake": 2, "retry": 3},
    V2: {"initial": 1, "0rtt": 2, "handshake": 3, "retry": 0},
}
SUITE_NAME = {0x1301: "AES_128_GCM_SHA256", 0x1302: "AES_256_GCM_SHA384", 0x1303: "CHACHA20_POLY1305_SHA256"}
SPACE = {"initial": "I", "handshake": "H", "0rtt": "A", "1rtt": "A"}

# ----------------------------------------------------------------------------- deepcopy support

_copy_ready = False


def install_copy_support():
    """Make copy.deepcopy(QuicConnection) work: C helper objects that are immutable after
    construction (AEAD, HeaderProtection, key objects) are shared, Buffers and running hashes are
    really copied.  A violation seen on a copied state is always re-checked on a freshly prepared
    state before it is reported (see props/c05.py), so a copying artefact cannot become a finding."""
    global _copy_ready
    if _copy_ready:
        return
    from aioquic._crypto import AEAD, HeaderProtection
    from aioquic.buffer import Buffer
    from cryptography.hazmat.primitives import hashes

    def copy_buffer(x, memo):
        b = Buffer(capacity=x.capacity)
        b.push_bytes(x.data)
        return b

    D = copy._deepcopy_dispatch
    D[Buffer] = copy_buffer
    D[hashes.Hash] = lambda x, memo: x.copy()
    D[AEAD] = copy._deepcopy_atomic
    D[HeaderProtection] = copy._deepcopy_atomic
    _copy_ready = True


def clone_conn(conn):
    """Deep copy of a connection; configuration, loggers and key objects are shared."""
    install_copy_support()
    memo = {id(conn._configuration): conn._configuration}
    for attempt in range(12):
        try:
            c = copy.deepcopy(conn, dict(memo))
            ql = conn._configuration.quic_logger
            if ql is not None and c._quic_logger is not None:
                # the copied trace must be known to the (shared) QuicLogger, as the original is
                if not hasattr(ql, "_vf_base"):
                    ql._vf_base = list(ql._traces)
                ql._traces[:] = ql._vf_base + [c._quic_logger]
            return c
        except TypeError as exc:
            # an un-copyable leaf (cryptography key / certificate object): share it
            tb = exc.__traceback__
            obj = None
            while tb is not None:
                if tb.tb_frame.f_code.co_name == "deepcopy":
                    obj = tb.tb_frame.f_locals.get("x")
                tb = tb.tb_next
            if obj is None or type(obj) in copy._deepcopy_dispatch:
                raise
            copy._deepcopy_dispatch[type(obj)] = copy._deepcopy_atomic
    raise RuntimeError("could not deep-copy connection")


# ----------------------------------------------------------------------------- depth probes


class Probes:
    """Pass-through wrappers (installed in the child only) that count how deep an input got:
    header parsed / header error / decrypt attempted / decrypt ok / payload handled / TLS message."""

    def __init__(self):
        self.c = {}
        self.installed = False

    def reset(self):
        self.c = {"hdr_ok": 0, "hdr_err": 0, "dec_try": 0, "dec_ok": 0, "payload": 0, "tls": 0}

    def depth(self):
        c = self.c
        if c["tls"]:
            return 5
        if c["payload"]:
            return 4
        if c["dec_try"]:
            return 3
        if c["hdr_ok"]:
            return 2
        if c["hdr_err"]:
            return 1
        return 0

    def install(self):
        if self.installed:
            return
        import aioquic.quic.connection as cm
        from aioquic import tls
        from aioquic.quic.crypto import CryptoPair

        probes = self
        self.reset()
        orig_hdr = cm.pull_quic_header

        def pull_quic_header(buf, host_cid_length=None):
            try:
                h = orig_hdr(buf, host_cid_length=host_cid_length)
            except BaseException:
                probes.c["hdr_err"] += 1
                raise
            probes.c["hdr_ok"] += 1
            return h

        cm.pull_quic_header = pull_quic_header

        orig_dec = CryptoPair.decrypt_packet

        def decrypt_packet(self, packet, encrypted_offset, expected_packet_number):
            probes.c["dec_try"] += 1
            r = orig_dec(self, packet, encrypted_offset, expected_packet_number)
            probes.c["dec_ok"] += 1
            return r

        CryptoPair.decrypt_packet = decrypt_packet

        orig_pl = cm.QuicConnection._payload_received

        def _payload_received(self, context, plain, crypto_frame_required=False):
            probes.c["payload"] += 1
            return orig_pl(self, context, plain, crypto_frame_required=crypto_frame_required)

        cm.QuicConnection._payload_received = _payload_received

        orig_tls = tls.Context._handle_reassembled_message

        def _handle_reassembled_message(self, message_type, input_buf, output_buf):
            probes.c["tls"] += 1
            return orig_tls(self, message_type=message_type, input_buf=input_buf, output_buf=output_buf)

        tls.Context._handle_reassembled_message = _handle_reassembled_message
        self.installed = True


PROBES = Probes()

# ----------------------------------------------------------------------------- victim driver


class Drv:
    """The only caller of the victim's public API.  Every call goes through .call(), which
    turns an exception into simnet.ApiRaised (the totality oracle's raw observation)."""

    def __init__(self, conn, role, now, peer_addr):
        self.conn = conn
        self.role = role
        self.now = now
        self.peer_addr = peer_addr
        self.events = []
        self.terminated = None
        self.sent = 0
        self.calls = 0
        self.history = []
        self.last_out = []

    def clone(self):
        d = Drv(clone_conn(self.conn), self.role, self.now, self.peer_addr)
        d.terminated = self.terminated
        return d

    def call(self, name, *args, **kw):
        self.calls += 1
        try:
            ret = getattr(self.conn, name)(*args, **kw)
        except Exception as exc:
            self.history.append((round(self.now, 6), name, "RAISED %r" % (exc,)))
            raise ApiRaised(self.role, name, exc)
        if len(self.history) < 400:
            self.history.append(
                (round(self.now, 6), name, [("bytes[%d]" % len(a)) if isinstance(a, (bytes, bytearray)) else repr(a)[:40] for a in args])
            )
        return ret

    def drain(self):
        while True:
            ev = self.call("next_event")
            if ev is None:
                break
            self.events.append(ev)
            if type(ev).__name__ == "ConnectionTerminated":
                self.terminated = ev

    def transmit(self):
        self.drain()
        out = self.call("datagrams_to_send", now=self.now)
        self.sent += len(out)
        self.last_out = [d for d, _a in out]
        self.drain()
        self.call("get_timer")
        return self.last_out

    def receive(self, data, addr=None, dt=0.001):
        self.now += dt
        self.call("receive_datagram", data, addr or self.peer_addr, now=self.now)
        return self.transmit()

    def fire_timer(self, max_advance):
        t = self.call("get_timer")
        if t is None:
            return False
        if max_advance is not None and t - self.now > max_advance:
            return False
        self.now = max(self.now, t)
        self.call("handle_timer", now=self.now)
        self.transmit()
        return True

    def settle(self, steps=200, max_advance=5.0):
        """Keep cycling timer / transmit / event calls, following get_timer()."""
        n = 0
        for _ in range(steps):
            if self.terminated is not None:
                break
            if not self.fire_timer(max_advance):
                break
            n += 1
        return n

    def finish(self, steps=80):
        """Follow the timer wherever it leads (idle timeout included) until termination."""
        return self.settle(steps=steps, max_advance=None)


# ----------------------------------------------------------------------------- key-holding peer


class Peer:
    """Builds protected packets toward the victim. Plain data + shared immutable Keys objects."""

    def __init__(self, role, version, keys, dcid, scid, next_pn=None, odcid=None, victim_cid_len=8):
        self.role = role  # the role the peer plays ("client" when the victim is the server)
        self.version = version
        self.keys = dict(keys)
        self.dcid = dcid
        self.scid = scid
        self.odcid = odcid
        self.next_pn = dict(next_pn or {"I": 0, "H": 0, "A": 0})
        self.key_phase = 0
        self.victim_cid_len = victim_cid_len

    def clone(self):
        p = Peer(self.role, self.version, self.keys, self.dcid, self.scid, self.next_pn, self.odcid, self.victim_cid_len)
        p.key_phase = self.key_phase
        return p

    def has(self, ptype):
        return ptype in self.keys

    def key_update(self):
        self.keys["1rtt"] = self.keys["1rtt"].next_phase()
        self.key_phase ^= 1

    def packet(self, ptype, payload, pn=None, pn_len=2, dcid=None, scid=None, token=b"", version=None, key_phase=None,
               keys=None, reserved_bits=0, fixed_bit=True, pad_to=None, type_version=None):
        space = SPACE[ptype]
        if pn is None:
            pn = self.next_pn[space]
            self.next_pn[space] = pn + 1
        if len(payload) < 4 - pn_len:
            payload = payload + bytes(4 - pn_len - len(payload))
        keys = keys or self.keys[ptype]
        dcid = self.dcid if dcid is None else dcid
        version = self.version if version is None else version
        if ptype == "1rtt":
            if pad_to:
                payload = payload + bytes(max(0, pad_to - len(payload) - 1 - len(dcid) - pn_len - 16))
            kp = self.key_phase if key_phase is None else key_phase
            first = (0x40 if fixed_bit else 0) | (reserved_bits << 3) | (kp << 2) | (pn_len - 1)
            hdr = bytes([first]) + dcid
        else:
            scid = self.scid if scid is None else scid
            tv = type_version if type_version is not None else (version if version in TYPE_CODE else V1)
            base = 7 + len(dcid) + len(scid) + 2 + pn_len + 16
            if ptype == "initial":
                base += len(F.enc_varint(len(token))) + len(token)
            if pad_to:
                payload = payload + bytes(max(0, pad_to - len(payload) - base))
            first = 0x80 | (0x40 if fixed_bit else 0) | (TYPE_CODE[tv][ptype] << 4) | (reserved_bits << 2) | (pn_len - 1)
            hdr = bytes([first]) + version.to_bytes(4, "big") + bytes([len(dcid)]) + dcid + bytes([len(scid)]) + scid
            if ptype == "initial":
                hdr += F.enc_varint(len(token)) + token
            ln = pn_len + len(payload) + 16
            hdr += F.enc_varint(ln, 2 if ln < 16384 else 4)
        return rc.protect(keys, hdr, pn, pn_len, payload)

    def crypto_packets(self, ptype, data, offset=0, chunk=1000, pad_initial=False):
        """Packets carrying `data` as CRYPTO frames starting at `offset`."""
        out = []
        pos = 0
        while pos < len(data) or (not data and not out):
            part = data[pos : pos + chunk]
            pkt = self.packet(ptype, F.f_crypto(offset + pos, part), pad_to=1200 if pad_initial else None)
            out.append(pkt)
            pos += max(len(part), 1)
        return out


def snapshot_keys(conn):
    """Traffic keys the genuine endpoint `conn` would *send* with, as refcrypto.Keys per packet type."""
    from aioquic import tls

    out = {}
    ep = {"initial": tls.Epoch.INITIAL, "handshake": tls.Epoch.HANDSHAKE, "0rtt": tls.Epoch.ZERO_RTT, "1rtt": tls.Epoch.ONE_RTT}
    for ptype, epoch in ep.items():
        pair_ = conn._cryptos.get(epoch)
        ctx = pair_.send if pair_ is not None else None
        if ctx is None or ctx.secret is None or ctx.cipher_suite is None:
            continue
        out[ptype] = rc.Keys(SUITE_NAME[int(ctx.cipher_suite)], bytes(ctx.secret), int(ctx.version))
    return out


# ----------------------------------------------------------------------------- genuine pair


class Genuine:
    """Two real connections, manual clock, datagrams moved by hand."""

    def __init__(self, opts=None, client_kwargs=None, server_kwargs=None, tweak=None):
        from aioquic.quic.connection import QuicConnection

        self.opts = dict(opts or {})
        self.keylog = io.StringIO()
        self.ccfg, self.scfg = make_configs(self.opts)
        self.ccfg.secrets_log_file = self.keylog
        self.scfg.secrets_log_file = self.keylog
        if self.opts.get("qlog"):
            from aioquic.quic.logger import QuicLogger

            self.ccfg.quic_logger = QuicLogger()
            self.scfg.quic_logger = QuicLogger()
        if self.opts.get("verify_none"):
            import ssl

            self.ccfg.verify_mode = ssl.CERT_NONE
        if self.opts.get("no_alpn"):
            self.ccfg.alpn_protocols = None
            self.scfg.alpn_protocols = None
        if tweak:
            tweak(self.ccfg, self.scfg)
        self.client_kwargs = client_kwargs or {}
        self.server_kwargs = server_kwargs or {}
        self.client = QuicConnection(configuration=self.ccfg, **self.client_kwargs)
        self.server = None
        self.now = 0.0
        self.events = {"client": [], "server": []}
        self.odcid = None
        self.wire = []  # (sender, datagram)

    def make_server(self):
        from aioquic.quic.connection import QuicConnection

        if self.server is None:
            self.server = QuicConnection(configuration=self.scfg, original_destination_connection_id=self.odcid, **self.server_kwargs)
        return self.server

    def start(self):
        self.client.connect(SERVER_ADDR, now=self.now)
        self.odcid = self.client.original_destination_connection_id
        return self

    def _drain(self, name):
        conn = self.client if name == "client" else self.server
        while True:
            ev = conn.next_event()
            if ev is None:
                break
            self.events[name].append(ev)

    def emit(self, sender):
        """Datagrams the sender has pending (recorded, not delivered)."""
        src = self.client if sender == "client" else self.server
        out = [d for d, _a in src.datagrams_to_send(now=self.now)]
        for d in out:
            self.wire.append((sender, d))
        return out

    def deliver(self, to, dgrams):
        for d in dgrams:
            if to == "server":
                self.make_server().receive_datagram(d, CLIENT_ADDR, now=self.now)
            else:
                self.client.receive_datagram(d, SERVER_ADDR, now=self.now)
        self._drain("client")
        if self.server is not None:
            self._drain("server")

    def roundtrips(self, n=1):
        for _ in range(n):
            self.now += 0.01
            self.deliver("server", self.emit("client"))
            self.now += 0.01
            self.deliver("client", self.emit("server"))
        return self

    def complete(self, max_rounds=10):
        self.start()
        for _ in range(max_rounds):
            self.roundtrips(1)
            if (
                any(type(e).__name__ == "HandshakeCompleted" for e in self.events["client"])
                and any(type(e).__name__ == "HandshakeCompleted" for e in self.events["server"])
                and self.client._handshake_confirmed
            ):
                self.now += 0.05
                for c in (self.client, self.server):
                    t = c.get_timer()
                    if t is not None and t <= self.now:
                        c.handle_timer(now=self.now)
                self.roundtrips(2)
                return self
        raise RuntimeError("handshake did not complete")


def crypto_plaintext(conn, epoch_name):
    """Plaintext TLS bytes a genuine endpoint has written for an epoch (harness convenience: read
    from the genuine endpoint's CRYPTO send buffer; the victim is never peeked at this way)."""
    from aioquic import tls

    ep = {"initial": tls.Epoch.INITIAL, "handshake": tls.Epoch.HANDSHAKE, "1rtt": tls.Epoch.ONE_RTT}[epoch_name]
    s = conn._crypto_streams[ep].sender
    if s._buffer_start != 0:
        raise RuntimeError("crypto buffer already trimmed")
    return bytes(s._buffer)


def split_tls(data):
    """[(type, body, raw)] of complete handshake messages in data."""
    out = []
    p = 0
    while p + 4 <= len(data):
        ln = int.from_bytes(data[p + 1 : p + 4], "big")
        out.append((data[p], data[p + 4 : p + 4 + ln], data[p : p + 4 + ln]))
        p += 4 + ln
    return out


# ----------------------------------------------------------------------------- states


class State:
    """A prepared victim state + the peer that can talk to it + genuine material."""

    def __init__(self, role, name, drv, peer, info):
        self.role = role
        self.name = name
        self.drv = drv
        self.peer = peer
        self.info = info  # JSON-unfriendly material: genuine datagrams, TLS messages, cids, ...

    def clone(self):
        return State(self.role, self.name, self.drv.clone(), self.peer.clone() if self.peer else None, self.info)


SERVER_STATES = ["fresh", "partial_ch", "after_ch", "connected", "key_updated", "local_key_update", "close_pending", "closing", "draining"]
CLIENT_STATES = [
    "first_flight", "after_sh", "after_ee", "after_cert", "after_cv", "after_fin", "connected", "key_updated",
    "local_key_update", "close_pending", "closing", "draining",
]
TLS_STAGE = {"first_flight": 0, "after_sh": 1, "after_ee": 2, "after_cert": 3, "after_cv": 4, "after_fin": 5}


def _app_activity(g, victim_role):
    """Some genuine application traffic so that streams exist in all classes, then unacknowledged
    victim data in flight."""
    c, s = g.client, g.server
    c.send_stream_data(0, b"c" * 3000)
    c.send_stream_data(2, b"u" * 100, end_stream=True)
    s.send_stream_data(1, b"s" * 3000)
    s.send_stream_data(3, b"v" * 100)
    g.roundtrips(3)
    c.send_stream_data(4, b"x" * 10, end_stream=True)
    g.roundtrips(2)
    v = c if victim_role == "client" else s
    sid_b = 8 if victim_role == "client" else 5
    sid_u = 6 if victim_role == "client" else 7
    v.send_stream_data(sid_b, b"inflight" * 200)
    v.send_stream_data(sid_u, b"uni" * 10)
    v.send_ping(77)


def _server_kwargs(opts, store):
    kw = {}
    if opts.get("tickets"):
        kw["session_ticket_handler"] = lambda t: store.__setitem__(t.ticket, t)
        kw["session_ticket_fetcher"] = lambda k: store.get(k)
    return kw


def _client_kwargs(opts, store):
    kw = {}
    if opts.get("tickets"):
        kw["session_ticket_handler"] = lambda t: store.setdefault("client_tickets", []).append(t)
    if opts.get("token_handler"):
        kw["token_handler"] = lambda t: store.setdefault("tokens", []).append(t)
    return kw


def prepare(role, name, opts, seed):
    """Bring a real victim of `role` into state `name` using only genuine traffic (plus, for the
    mid-handshake client states, the genuine server's own TLS messages re-packetised by the peer).
    Raises ApiRaised if a public API call of the victim raised on the way."""
    from aioquic.quic.connection import QuicConnection

    store = {}
    g = Genuine(opts, client_kwargs=_client_kwargs(opts, store), server_kwargs=_server_kwargs(opts, store))
    info = {"store": store, "opts": opts}
    if role == "server" and name == "after_ch_0rtt":
        # a resumed session whose early data the server accepts: the victim holds 0-RTT receive keys and the peer (the
        # genuine client's keys, 0-RTT included) may put any frame into 0-RTT packets
        opts1 = dict(opts, tickets=True)
        store1 = {}
        g1 = Genuine(opts1, client_kwargs=_client_kwargs(opts1, store1), server_kwargs=_server_kwargs(opts1, store1))
        g1.complete()
        g1.roundtrips(2)
        tickets = store1.get("client_tickets") or []
        if not tickets:
            raise RuntimeError("harness: no session ticket obtained")
        ticket = tickets[-1]
        g = Genuine(opts1, client_kwargs=_client_kwargs(opts1, store1), server_kwargs=_server_kwargs(opts1, store1),
                    tweak=lambda ccfg, scfg: setattr(ccfg, "session_ticket", ticket))
        info = {"store": store1, "opts": opts1}
        g.start()
        g.client.send_stream_data(0, b"early" * 50)
        version = g.client._version
        first = g.emit("client")
        keys = snapshot_keys(g.client)
        if "0rtt" not in keys:
            raise RuntimeError("harness: the genuine client has no 0-RTT send keys")
        c_init, _s_init = rc.initial_keys(version, g.odcid)
        keys["initial"] = c_init
        victim = g.make_server()
        drv = Drv(victim, "server", g.now, CLIENT_ADDR)
        out = []
        for d in first:
            out += drv.receive(d)
        out += drv.transmit()
        from aioquic import tls as _tls

        zr = victim._cryptos[_tls.Epoch.ZERO_RTT].recv
        if not zr.is_valid():
            raise RuntimeError("harness: the server did not install 0-RTT receive keys")
        pn0 = g.client._packet_number + 10
        peer = Peer("client", version, keys, dcid=bytes(victim.host_cid), scid=bytes(g.client.host_cid),
                    next_pn={"I": pn0, "H": pn0, "A": pn0}, odcid=g.odcid)
        info.update(odcid=g.odcid, version=version, first=first, victim_out=out, pending=[])
        info["victim_cids"] = [bytes(c.cid) for c in drv.conn._host_cids]
        return State(role, name, drv, peer, info)
    if role == "server":
        if name in ("fresh", "partial_ch", "after_ch"):
            g.start()
            version = g.client._version
            first = g.emit("client")
            ch = crypto_plaintext(g.client, "initial")
            c_init, _s_init = rc.initial_keys(version, g.odcid)
            pn0 = g.client._packet_number + 10
            peer = Peer("client", version, {"initial": c_init}, dcid=g.odcid, scid=bytes(g.client.host_cid),
                        next_pn={"I": pn0, "H": pn0, "A": pn0}, odcid=g.odcid)
            info.update(ch=ch, first=first, odcid=g.odcid, version=version)
            if name == "fresh":
                victim = QuicConnection(configuration=g.scfg, original_destination_connection_id=g.odcid, **g.server_kwargs)
                drv = Drv(victim, "server", g.now, CLIENT_ADDR)
                info["pending"] = list(first)
            elif name == "partial_ch":
                victim = QuicConnection(configuration=g.scfg, original_destination_connection_id=g.odcid, **g.server_kwargs)
                drv = Drv(victim, "server", g.now, CLIENT_ADDR)
                half = len(ch) // 2
                drv.receive(peer.packet("initial", F.f_crypto(0, ch[:half]), pad_to=1200))
                info["ch_delivered"] = half
                info["pending"] = [peer.clone().packet("initial", F.f_crypto(half, ch[half:]), pad_to=1200)]
            else:
                victim = g.make_server()
                drv = Drv(victim, "server", g.now, CLIENT_ADDR)
                out = []
                for d in first:
                    out += drv.receive(d)
                out += drv.transmit()
                g.now = drv.now
                g.deliver("client", out)
                peer.keys.update(snapshot_keys(g.client))
                peer.dcid = bytes(g.client._peer_cid.cid)
                info["client_hs"] = crypto_plaintext(g.client, "handshake")
                info["pending"] = g.emit("client")
                info["victim_out"] = out
            info["victim_cids"] = [bytes(c.cid) for c in drv.conn._host_cids]
            return State(role, name, drv, peer, info)
        victim_conn = "server"
    else:
        if name in TLS_STAGE:
            g.start()
            drv = Drv(g.client, "client", g.now, SERVER_ADDR)
            first = drv.transmit()
            g.deliver("server", first)
            version = g.server._version
            keys = snapshot_keys(g.server)
            pn0 = g.server._packet_number + 10
            peer = Peer("server", version, keys, dcid=bytes(g.client.host_cid), scid=bytes(g.server.host_cid),
                        next_pn={"I": pn0, "H": pn0, "A": pn0}, odcid=g.odcid)
            sh = crypto_plaintext(g.server, "initial")
            hs = crypto_plaintext(g.server, "handshake")
            ap = crypto_plaintext(g.server, "1rtt")
            msgs = split_tls(hs)
            info.update(sh=sh, hs=hs, ap=ap, hs_msgs=msgs, odcid=g.odcid, version=version, first=first,
                        client_version=g.client._version)
            stage = TLS_STAGE[name]
            off = 0
            if stage >= 1:
                for pkt in peer.crypto_packets("initial", sh):
                    drv.receive(pkt)
            for k in range(min(stage - 1, len(msgs))):
                raw = msgs[k][2]
                for pkt in peer.crypto_packets("handshake", raw, offset=off):
                    drv.receive(pkt)
                off += len(raw)
            info["hs_off"] = off
            info["hs_next"] = max(stage - 1, 0)
            info["pending"] = g.emit("server")
            info["victim_cids"] = [bytes(c.cid) for c in drv.conn._host_cids]
            return State(role, name, drv, peer, info)
        victim_conn = "client"

    # ---- states derived from a complete genuine handshake
    g.complete()
    _app_activity(g, role)
    genuine = g.client if role == "server" else g.server
    victim = g.server if role == "server" else g.client
    version = genuine._version
    pn0 = genuine._packet_number + 10
    peer = Peer("client" if role == "server" else "server", version, snapshot_keys(genuine), dcid=bytes(genuine._peer_cid.cid),
                scid=bytes(genuine.host_cid), next_pn={"I": pn0, "H": pn0, "A": pn0}, odcid=g.odcid)
    drv = Drv(victim, role, g.now, CLIENT_ADDR if role == "server" else SERVER_ADDR)
    info.update(odcid=g.odcid, version=version)
    info["victim_out"] = drv.transmit()
    # genuine datagrams the victim has not seen yet
    if role == "server":
        genuine.send_stream_data(0, b"more" * 300)
        genuine.send_stream_data(12, b"new stream", end_stream=True)
    else:
        genuine.send_stream_data(1, b"more" * 300)
        genuine.send_stream_data(9, b"new stream", end_stream=True)
    genuine.send_ping(5)
    info["pending"] = g.emit("client" if role == "server" else "server")
    peer.next_pn = {k: genuine._packet_number + 10 for k in "IHA"}
    if name == "connected":
        pass
    elif name == "key_updated":
        peer.key_update()
        drv.receive(peer.packet("1rtt", F.f_ping()))
    elif name == "local_key_update":
        victim.request_key_update()
        victim.send_ping(78)
        drv.transmit()
        peer.key_update()  # the victim now receives with the next key phase as well
    elif name == "close_pending":
        victim.close(error_code=0x33, reason_phrase="bye")
    elif name == "closing":
        victim.close(error_code=0x33, reason_phrase="bye")
        drv.transmit()
    elif name == "draining":
        drv.receive(peer.packet("1rtt", F.f_connection_close(0, 0, b"done")))
    else:
        raise ValueError("unknown state %r" % name)
    info["victim_cids"] = [bytes(c.cid) for c in victim._host_cids]
    return State(role, name, drv, peer, info)
