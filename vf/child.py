"""Child entry point: python -m vf.child <module> <batch.json> <out.json>"""

from __future__ import annotations

import importlib
import json
import logging
import os
import sys
import traceback


def main() -> int:
    mod_name, bfile, ofile = sys.argv[1:4]
    logging.disable(logging.CRITICAL)  # aioquic's own logging is noise here
    stage = os.environ.get("VF_STAGE")
    with open(bfile) as f:
        batch = json.load(f)
    try:
        import aioquic

        if stage and not os.path.abspath(aioquic.__file__).startswith(os.path.abspath(stage)):
            raise RuntimeError("aioquic imported from %s, not from stage %s" % (aioquic.__file__, stage))
        mod = importlib.import_module(mod_name)
        res = mod.run_batch(batch)
    except BaseException as exc:  # harness failure, never a property violation
        if isinstance(exc, KeyboardInterrupt):
            raise
        res = {"harness_error": traceback.format_exc()[-4000:], "evaluations": 0}
    tmp = ofile + ".tmp"
    with open(tmp, "w") as f:
        json.dump(res, f, default=_default)
    os.replace(tmp, ofile)
    return 0


def _default(o):
    if isinstance(o, (bytes, bytearray)):
        return o.hex()
    if isinstance(o, (set, frozenset)):
        return sorted(o)
    return repr(o)


if __name__ == "__main__":
    sys.exit(main())
