"""C03 parts (b, QUIC level), (c) agreement matrix and (d) on-path alteration of Initial packets.

Real QuicConnection objects on vf.simnet's virtual clock; a harness front-end answers with
Version Negotiation / Retry exactly like aioquic.asyncio.server does; certificates of every key
type come from the throw-away PKI in vf.c03_pki. No aioquic import at module level.
"""

from __future__ import annotations

import io
import os
import random

from . import refcrypto as rc
from . import simnet
from .c03_pki import KEY_TYPES, pki
from .common import h
from .simnet import CLIENT_ADDR, SERVER_ADDR, ApiRaised, DatagramRecord, Endpoint, Fates, Monitor, SimNet

V = {"v1": rc.V1, "v2": rc.V2}
VNAME = {rc.V1: "v1", rc.V2: "v2"}
SUITES = ["AES_128_GCM_SHA256", "AES_256_GCM_SHA384", "CHACHA20_POLY1305_SHA256"]
SUITE_CODE = {"AES_128_GCM_SHA256": 0x1301, "AES_256_GCM_SHA384": 0x1302, "CHACHA20_POLY1305_SHA256": 0x1303}
MAIN_LABELS = ["CLIENT_HANDSHAKE_TRAFFIC_SECRET", "SERVER_HANDSHAKE_TRAFFIC_SECRET", "CLIENT_TRAFFIC_SECRET_0", "SERVER_TRAFFIC_SECRET_0"]

_RETRY_HANDLER = None


def retry_handler():
    global _RETRY_HANDLER
    if _RETRY_HANDLER is None:
        from aioquic.quic.retry import QuicRetryTokenHandler

        _RETRY_HANDLER = QuicRetryTokenHandler()
    return _RETRY_HANDLER


# ------------------------------------------------------------------ configuration building


def build_configs(o: dict):
    """o: key, flavour, wrong_key, suites_c, suites_s, versions_c, versions_s, original_version,
    alpn_c, alpn_s, client_cert (None | 'none' | key type), idle"""
    from aioquic.quic.configuration import QuicConfiguration
    from aioquic.tls import CipherSuite

    P = pki()
    ccfg = QuicConfiguration(
        is_client=True,
        alpn_protocols=o.get("alpn_c"),
        idle_timeout=o.get("idle", 30.0),
        supported_versions=[V[x] for x in o.get("versions_c", ["v1", "v2"])],
        server_name=o.get("server_name", "localhost"),
        max_datagram_frame_size=65536,
    )
    if o.get("original_version"):
        ccfg.original_version = V[o["original_version"]]
    if o.get("suites_c"):
        ccfg.cipher_suites = [CipherSuite[x] for x in o["suites_c"]]
    ccfg.load_verify_locations(cadata=P.ca_pem)
    cc = o.get("client_cert")
    if cc and cc != "none":
        ccfg.certificate, ccfg.private_key = P.leaf(cc, "good", cn="client.example")
    scfg = QuicConfiguration(
        is_client=False,
        alpn_protocols=o.get("alpn_s"),
        idle_timeout=o.get("idle", 30.0),
        supported_versions=[V[x] for x in o.get("versions_s", ["v1", "v2"])],
        max_datagram_frame_size=65536,
    )
    if o.get("suites_s"):
        scfg.cipher_suites = [CipherSuite[x] for x in o["suites_s"]]
    scfg.certificate, scfg.private_key = P.leaf(o.get("key", "p256"), o.get("flavour", "good"), cn=o.get("cert_cn", "localhost"))
    scfg.certificate_chain = P.chain_for(o.get("flavour", "good"))
    if o.get("wrong_key"):
        scfg.private_key = P.key(o.get("key", "p256"), slot=1)
    return ccfg, scfg


class TicketStore:
    def __init__(self):
        self.client = []
        self.server = {}

    def add(self, t):
        self.server[t.ticket] = t

    def get(self, label):
        return self.server.get(label)


class _JoinedLog:
    def __init__(self, a, b):
        self.a, self.b = a, b

    def getvalue(self):
        return self.a.getvalue() + self.b.getvalue()


# ------------------------------------------------------------------ simulation with a server front-end


class HsMonitor(Monitor):
    name = "c03-handshake"

    def __init__(self, want_ticket=False):
        super().__init__()
        self.completed = {}  # side -> HandshakeCompleted event
        self.negotiated = {}
        self.wire_versions = {"client": {}, "server": {}}
        self.tap_errors = 0
        self.want_ticket = want_ticket
        self.tickets = None

    def on_event(self, ep, event, t):
        n = type(event).__name__
        if n == "HandshakeCompleted":
            self.completed.setdefault(ep.name, event)
            self.evaluations += 1
        elif n == "ProtocolNegotiated":
            self.negotiated.setdefault(ep.name, event)

    def on_datagram_out(self, ep, rec, t):
        for v in rec.views or []:
            if v.error:
                self.tap_errors += 1
            elif v.ptype in ("initial", "handshake", "0rtt"):
                self.wire_versions[ep.name].setdefault(v.ptype, set()).add(v.version)

    def complete(self):
        sim = self.sim
        c, s = sim.client, sim.server
        if c.terminated and (s is None or s.terminated):
            return True
        if "client" in self.completed and "server" in self.completed:
            if self.want_ticket and not self.tickets.client:
                return False
            return True
        return False


class HsSim(SimNet):
    def __init__(self, o, fates, script, monitors, seed, store: TicketStore, ticket=None, horizon=100.0):
        ccfg, scfg = build_configs(o)
        if ticket is not None:
            ccfg.session_ticket = ticket
        orig = simnet.make_configs
        simnet.make_configs = lambda _opts: (ccfg, scfg)  # hand our configurations to the unmodified engine
        try:
            super().__init__(
                {}, fates, script, monitors, seed=seed, horizon=horizon, step_cap=6000,
                client_conn_kwargs={"session_ticket_handler": store.client.append},
                server_conn_kwargs={"session_ticket_handler": store.add, "session_ticket_fetcher": store.get},
            )
        finally:
            simnet.make_configs = orig
        # separate key logs per endpoint (the property compares them)
        self.c_log, self.s_log = io.StringIO(), io.StringIO()
        ccfg.secrets_log_file, scfg.secrets_log_file = self.c_log, self.s_log
        self.keylog = _JoinedLog(self.c_log, self.s_log)
        self.o = o
        self.retry = bool(o.get("retry"))
        self.frontend = {"vn": 0, "retry": 0, "token_ok": 0, "token_bad": 0}
        self.api_raised = None

    def _frontend_send(self, data):
        n = sum(self.frontend.values())
        rec = DatagramRecord("frontend", -1 - n, data, CLIENT_ADDR, None, self.now)
        fate = self.fates.deliveries("s2c", 100000 + n, self.now)
        rec.fate = fate
        for delay, _alt, _corrupt in fate:
            self.in_flight += 1
            self._push(self.now + delay, "deliver", (rec, False, False))

    def _ensure_server(self, first_datagram: bytes, src=None):
        """What aioquic.asyncio.server.QuicServer.datagram_received does before it has a connection."""
        from aioquic.buffer import Buffer
        from aioquic.quic.connection import QuicConnection
        from aioquic.quic.packet import QuicPacketType, encode_quic_retry, encode_quic_version_negotiation, pull_quic_header

        if self.server is not None:
            return True
        try:
            header = pull_quic_header(Buffer(data=first_datagram), host_cid_length=self.scfg.connection_id_length)
        except ValueError:
            return False
        if header.version is not None and header.version not in self.scfg.supported_versions:
            self.frontend["vn"] += 1
            self._frontend_send(
                encode_quic_version_negotiation(
                    source_cid=header.destination_cid, destination_cid=header.source_cid, supported_versions=self.scfg.supported_versions
                )
            )
            return False
        if len(first_datagram) < 1200 or header.packet_type != QuicPacketType.INITIAL:
            return False
        odcid, rscid = header.destination_cid, None
        if self.retry:
            if not header.token:
                scid = os.urandom(8)
                self.frontend["retry"] += 1
                self._frontend_send(
                    encode_quic_retry(
                        version=header.version, source_cid=scid, destination_cid=header.source_cid,
                        original_destination_cid=header.destination_cid,
                        retry_token=retry_handler().create_token(CLIENT_ADDR, header.destination_cid, scid),
                    )
                )
                return False
            try:
                odcid, rscid = retry_handler().validate_token(CLIENT_ADDR, header.token)
                self.frontend["token_ok"] += 1
            except ValueError:
                self.frontend["token_bad"] += 1
                return False
        conn = QuicConnection(
            configuration=self.scfg, original_destination_connection_id=odcid, retry_source_connection_id=rscid, **self.server_conn_kwargs
        )
        if self.o.get("client_cert"):
            # The QUIC layer has no public switch for requesting a client certificate; the TLS engine's
            # own flag is set as soon as the engine exists (it is created inside the first receive_datagram).
            init = conn._initialize

            def _init(peer_cid, init=init, conn=conn):
                init(peer_cid)
                conn.tls._request_client_certificate = True

            conn._initialize = _init
        self.server = Endpoint("server", conn, SERVER_ADDR)
        return True


def parse_keylog(text):
    out = {}
    for line in text.splitlines():
        parts = line.split()
        if len(parts) == 3:
            out.setdefault(parts[0], []).append((parts[1], parts[2]))
    return out


def run_hs(o, fparams, seed, store, ticket=None, early=False, want_ticket=False, horizon=100.0):
    mon = HsMonitor(want_ticket=want_ticket)
    mon.tickets = store
    script = [
        {"t": 0.0, "side": "client", "op": "write", "sid": 0, "n": 300 if early else 120, "fin": False},
        {"t": 0.0, "side": "server", "op": "write", "sid": 1, "n": 150, "fin": False},
    ]
    sim = HsSim(o, Fates(seed, fparams), script, [mon], seed, store, ticket=ticket, horizon=horizon)
    try:
        sim.run()
    except ApiRaised as ar:
        sim.api_raised = ar
    return sim, mon


# ------------------------------------------------------------------ (c) sampling and oracle


def ordered_subset(rng, items):
    k = rng.choice([1, 1, 2, 2, 3][: 2 * len(items) - 1])
    return rng.sample(items, k)


ALPN_POOL = [None, ["a"], ["b"], ["a", "b"], ["b", "a"], ["c"], ["c", "a"], ["b", "c", "a"]]
VERSION_POOL = [["v1"], ["v2"], ["v1", "v2"], ["v2", "v1"]]


def sample_options(rng):
    o = {
        "key": rng.choice(KEY_TYPES),
        "suites_c": ordered_subset(rng, SUITES),
        "suites_s": ordered_subset(rng, SUITES),
        "versions_c": rng.choice(VERSION_POOL),
        "versions_s": rng.choice(VERSION_POOL),
        "alpn_c": rng.choice(ALPN_POOL),
        "alpn_s": rng.choice(ALPN_POOL),
        "retry": rng.random() < 0.25,
        "client_cert": rng.choice([None, None, None, "none", "p256", "ed25519", "rsa"]),
    }
    if rng.random() < 0.3:
        o["suites_c"] = None  # library default list
    if rng.random() < 0.3:
        o["suites_s"] = None
    r = rng.random()
    if r < 0.35 and len(o["versions_c"]) > 1:
        o["original_version"] = rng.choice(o["versions_c"])
    return o


def shared(o):
    sc = set(o["suites_c"] or SUITES)
    ss = set(o["suites_s"] or SUITES)
    ac, as_ = o["alpn_c"], o["alpn_s"]
    if ac is None and as_ is None:
        alpn = True
    elif as_ is None:
        # a server without an ALPN list ignores the client's offer (RFC 7301: the extension is optional for the server);
        # whether that counts as "sharing an option" is a matter of reading -> either outcome is accepted
        alpn = "either"
    elif ac is None:
        # a client that offers nothing against a server that insists on one of its protocols: nothing in common
        # (RFC 9001 8.1: the server must refuse with no_application_protocol)
        alpn = False
    else:
        alpn = bool(set(ac) & set(as_))
    return {"suite": bool(sc & ss), "version": bool(set(o["versions_c"]) & set(o["versions_s"])), "alpn": alpn}


def fate_params(rng):
    return {
        "loss": rng.choice([0.0, 0.05, 0.15, 0.3]),
        "jitter": rng.choice([0.0, 0.03, 0.2]),
        "reorder": rng.choice([0.3, 0.6]),
        "adv_seconds": rng.choice([1.0, 2.5]),
        "adv_dgrams": 60,
        "delay": 0.02,
    }


def _conn_state(ep):
    if ep is None:
        return "absent"
    tls_state = ep.conn.tls.state.name if getattr(ep.conn, "tls", None) is not None else "no-tls"
    term = ""
    if ep.term_event is not None:
        term = ":closed(0x%x)" % ep.term_event.error_code
    return tls_state + term


def evaluate(sim, mon, o, res, case, offered_ticket, where="c"):
    """Oracle of the agreement clause, from the property text only. Returns outcome string."""
    cev, sev = mon.completed.get("client"), mon.completed.get("server")
    sh = shared(o)
    none_shared = [k for k in ("suite", "alpn", "version") if sh[k] is False]
    outcome = "%s/%s" % ("C" if cev else "-", "S" if sev else "-")
    res.count("%s_outcome:%s" % (where, outcome))
    if none_shared:
        res.count("%s_mustfail_evaluated" % where)
        for k in none_shared:
            res.count("%s_mustfail:no-common-%s" % (where, k))
        if cev or sev:
            who = "both" if cev and sev else ("client" if cev else "server")
            res.violation(
                "%s:completes-without-common-%s:%s" % (where, "+".join(none_shared), who),
                "%s reported HandshakeCompleted although the configurations share no %s (client %r/%r/%r, server %r/%r/%r)"
                % (who, "/".join(none_shared), o["suites_c"], o["alpn_c"], o["versions_c"], o["suites_s"], o["alpn_s"], o["versions_s"]),
                case,
                {"options": o, "client_event": repr(cev), "server_event": repr(sev)},
            )
        return outcome
    if cev and sev:
        res.count("%s_agreement_evaluated" % where)
        c, s = sim.client.conn, sim.server.conn
        # traffic secrets, per label
        # A client that was sent a Retry / Version Negotiation starts a new TLS session (new client_random);
        # only the lines of the session that completed are compared, keyed by the random the client used for it.
        ck, sk = parse_keylog(sim.c_log.getvalue()), parse_keylog(sim.s_log.getvalue())
        final_random = (ck.get("CLIENT_TRAFFIC_SECRET_0") or [("", "")])[-1][0]
        abandoned = sum(1 for v in ck.values() for r, _s in v if r != final_random)
        if abandoned:
            res.count("obs_keylog_lines_of_abandoned_client_attempts", abandoned)
        ck = {lab: [x for x in v if x[0] == final_random] for lab, v in ck.items()}
        ck = {lab: v for lab, v in ck.items() if v}
        for lab in sorted(set(ck) | set(sk)):
            a, b = ck.get(lab), sk.get(lab)
            if a is None or b is None:
                if lab in MAIN_LABELS:
                    res.violation("%s:keylog-label-missing:%s" % (where, lab), "only one endpoint logged %s" % lab, case, {"options": o})
                else:
                    res.count("obs_label_one_sided:" + lab)
                continue
            res.count("%s_secret_labels_compared" % where)
            if a != b:
                res.violation(
                    "%s:traffic-secrets-differ:%s" % (where, lab),
                    "both completed, %s differs between the endpoints' key logs" % lab, case, {"options": o, "client": a, "server": b},
                )
        for lab in MAIN_LABELS:
            if lab not in ck and lab not in sk:
                res.violation("%s:keylog-label-missing:%s" % (where, lab), "no endpoint logged %s" % lab, case, {"options": o})
        # version
        if c._version != s._version:
            res.violation(
                "%s:version-differs" % where, "client negotiated 0x%x, server 0x%x" % (c._version, s._version), case, {"options": o}
            )
        else:
            for side in ("client", "server"):
                hv = mon.wire_versions[side].get("handshake", set())
                if hv and hv != {c._version}:
                    res.violation(
                        "%s:wire-version-differs:%s-handshake-packets" % (where, side),
                        "%s sent Handshake packets with versions %s, negotiated 0x%x" % (side, sorted(hv), c._version), case, {"options": o},
                    )
                if hv:
                    res.count("%s_wire_versions_checked" % where)
            if c._version not in [V[x] for x in o["versions_c"]] or c._version not in [V[x] for x in o["versions_s"]]:
                res.violation("%s:version-not-in-both-lists" % where, "0x%x" % c._version, case, {"options": o})
        # cipher suite
        cs_c, cs_s = c.tls.key_schedule.cipher_suite, s.tls.key_schedule.cipher_suite
        if cs_c != cs_s:
            res.violation("%s:cipher-suite-differs" % where, "%r vs %r" % (cs_c, cs_s), case, {"options": o})
        else:
            if cs_c.name not in (o["suites_c"] or SUITES) or cs_c.name not in (o["suites_s"] or SUITES):
                res.violation("%s:cipher-suite-not-in-both-lists" % where, cs_c.name, case, {"options": o})
            for side in ("client", "server"):
                g = sim.tap.good.get((side, "1rtt")) if sim.tap is not None else None
                if g is not None:
                    res.count("%s_wire_suite_checked" % where)
                    if g.suite != cs_c.name or g.version != c._version:
                        res.violation(
                            "%s:wire-1rtt-protection-differs:%s" % (where, side),
                            "1-RTT packets of %s open with %s/0x%x, endpoints report %s/0x%x" % (side, g.suite, g.version, cs_c.name, c._version),
                            case, {"options": o},
                        )
        # ALPN, resumption
        if cev.alpn_protocol != sev.alpn_protocol:
            res.violation("%s:alpn-differs" % where, "%r vs %r" % (cev.alpn_protocol, sev.alpn_protocol), case, {"options": o})
        elif cev.alpn_protocol is not None:
            for lst, who in ((o["alpn_c"], "client"), (o["alpn_s"], "server")):
                if lst is not None and cev.alpn_protocol not in lst:
                    res.violation("%s:alpn-not-in-%s-list" % (where, who), "%r not in %r" % (cev.alpn_protocol, lst), case, {"options": o})
        elif o["alpn_c"] is not None and o["alpn_s"] is not None:
            res.violation("%s:alpn-none-although-both-configured" % where, "lists %r / %r" % (o["alpn_c"], o["alpn_s"]), case, {"options": o})
        if bool(cev.session_resumed) != bool(sev.session_resumed):
            res.violation(
                "%s:session_resumed-differs" % where, "client %r server %r" % (cev.session_resumed, sev.session_resumed), case, {"options": o}
            )
        elif cev.session_resumed and not offered_ticket:
            res.violation("%s:session_resumed-true-without-ticket" % where, "client offered no ticket; both report resumption", case, {"options": o})
        if cev.session_resumed:
            res.count("%s_resumed_handshakes" % where)
        if cev.early_data_accepted != sev.early_data_accepted:
            res.count("obs_early_data_accepted_differs")
        if cev.early_data_accepted:
            res.count("%s_early_data_accepted" % where)
        return outcome
    # not both complete although something is shared
    if sim.api_raised is not None:
        res.count("obs_api_raised_during_handshake")
        return outcome
    if o.get("client_cert") and sim.server is not None and getattr(sim.server.conn, "tls", None) is not None and sim.server.conn.tls.session_resumed:
        # The test-only _request_client_certificate flag combined with an accepted PSK: the TLS engine sends no
        # CertificateRequest (correct for a PSK handshake) yet waits for a Certificate. Not a configuration the
        # library supports through its API -> 'either' region, reported as an observation.
        res.count("obs_client_cert_flag_with_accepted_psk:" + outcome)
        return outcome
    if sh["alpn"] == "either":
        res.count("obs_alpn_none_one_side:" + outcome)
        return outcome
    res.count("%s_progress_evaluated" % where)
    res.violation(
        "%s:no-completion-with-shared-options:%s|%s" % (where, _conn_state(sim.client), _conn_state(sim.server)),
        "handshake outcome %s after %.1f virtual s (%s), fair since %s; client %s, server %s; front-end %r"
        % (outcome, sim.now, sim.stopped_reason, sim.fates.fair_since, _conn_state(sim.client), _conn_state(sim.server), sim.frontend),
        case,
        {"options": o, "history_tail": sim.history[-20:], "client_close": repr(sim.client.term_event), "server_close": repr(sim.server.term_event) if sim.server else None},
    )
    return outcome


def c_case(seed, res, want_sample=False):
    rng = random.Random("c03/c/%d" % seed)
    o = sample_options(rng)
    mode = rng.choice(["fresh", "fresh", "resumed", "resumed+0rtt"])
    fp = fate_params(rng)
    store = TicketStore()
    case = {"gen": "c_matrix", "seeds": [seed]}
    ticket = None
    o2 = o
    if mode != "fresh":
        sim1, mon1 = run_hs(o, {"delay": 0.02, "adv_seconds": 0.0}, seed * 2 + 1, store, want_ticket=True)
        res.count("c_first_connections")
        out1 = evaluate(sim1, mon1, o, res, case, offered_ticket=False, where="c")
        if store.client:
            ticket = store.client[-1]
            res.count("c_tickets_obtained")
        if rng.random() < 0.35:
            # the second connection may run with different lists than the one that issued the ticket
            o2 = dict(o)
            alt = sample_options(rng)
            for k in rng.sample(["suites_c", "suites_s", "versions_c", "versions_s", "alpn_c", "alpn_s", "original_version"], rng.choice([1, 2, 3])):
                if k in alt:
                    o2[k] = alt[k]
                else:
                    o2.pop(k, None)
            if o2.get("original_version") and o2["original_version"] not in o2["versions_c"]:
                o2.pop("original_version")
            res.count("c_options_changed_before_resumption")
    sim, mon = run_hs(o2, fp, seed * 2, store, ticket=ticket, early=(mode == "resumed+0rtt" and ticket is not None))
    res.evaluations += 1
    outcome = evaluate(sim, mon, o2, res, case, offered_ticket=ticket is not None, where="c")
    stray_packets_after_completion(sim, mon, o2, res, case)
    fc = sim.fates.counts
    res.count("c_frontend_vn", sim.frontend["vn"])
    res.count("c_frontend_retry", sim.frontend["retry"])
    res.count("c_datagrams_dropped", fc["drop"])
    res.count("c_datagrams_delayed", fc["delayed"])
    res.count("c_tap_errors_observed", mon.tap_errors)
    res.count("c_mode:" + mode + (":ticket" if ticket is not None else ""))
    res.count("c_key:" + o2["key"])
    if o2.get("client_cert"):
        res.count("c_client_cert_requested")
    cev = mon.completed.get("client")
    sig = (
        o2["key"], tuple(o2["suites_c"] or ()), tuple(o2["suites_s"] or ()), tuple(o2["versions_c"]), tuple(o2["versions_s"]),
        o2.get("original_version"), tuple(o2["alpn_c"] or ("-",)), tuple(o2["alpn_s"] or ("-",)), mode, bool(o2["retry"]), o2.get("client_cert"),
        outcome, bool(cev and cev.session_resumed), sim.frontend["vn"] > 0,
    )
    res.nontrivial.add("c:" + h(sig))
    if want_sample:
        res.sample(
            {"gen": "c_matrix", "seed": seed, "options": o2, "mode": mode, "fates": fp, "outcome": outcome,
             "version": VNAME.get(sim.client.conn._version), "resumed": bool(cev and cev.session_resumed),
             "dropped": fc["drop"], "frontend": sim.frontend}, limit=2,
        )


def stray_packets_after_completion(sim, mon, o, res, case):
    """Both endpoints completed and agree (evaluate() has just said so).  Packets that QUIC does not authenticate — a
    Version Negotiation packet listing the client's other versions, a Retry with a valid (public-key) integrity tag —
    built by anyone who saw the connection IDs on the wire, now reach the client: what the client reports about the
    completed handshake (version, TLS state, cipher suite, traffic keys in place) must stay what both sides agreed on."""
    from aioquic.quic.packet import encode_quic_retry, encode_quic_version_negotiation

    if not (mon.completed.get("client") and mon.completed.get("server")):
        return
    ce = sim.client
    c = ce.conn
    if getattr(ce, "term_event", None) is not None or c._state.name != "CONNECTED":
        return

    def view():
        ks = getattr(c.tls, "key_schedule", None)
        from aioquic import tls as _tls

        one = c._cryptos[_tls.Epoch.ONE_RTT]
        return {"version": c._version, "tls_state": c.tls.state.name, "cipher_suite": getattr(getattr(ks, "cipher_suite", None), "name", None),
                "1rtt_keys": (one.send.is_valid(), one.recv.is_valid()), "state": c._state.name}

    others = [V[x] for x in o["versions_c"] if V[x] != c._version] or [0x1A2A3A4A]
    forged = [
        ("version-negotiation", encode_quic_version_negotiation(source_cid=c._peer_cid.cid, destination_cid=c.host_cid, supported_versions=others)),
        ("retry", encode_quic_retry(version=c._version, source_cid=b"R" * 8, destination_cid=c.host_cid, original_destination_cid=c._peer_cid.cid, retry_token=b"tok")),
    ]
    for name, pkt in forged:
        before = view()
        try:
            c.receive_datagram(pkt, ("2.3.4.5", 4433), now=sim.now)
        except Exception as exc:
            res.count("obs_stray_packet_raised_" + type(exc).__name__)
        after = view()
        res.count("c_stray_%s_after_completion" % name)
        if after != before:
            changed = sorted(k for k in before if before[k] != after[k])
            res.violation("c:stray-%s-after-completion-changes:%s" % (name, "+".join(changed)),
                          "both endpoints had completed and agreed; a %s packet nobody authenticated then changed what the client holds: %s -> %s" % (
                              name, {k: before[k] for k in changed}, {k: after[k] for k in changed}), case, {"options": o, "before": before, "after": after})
            return


def c_matrix(batch, res):
    """batch["range"] = [lo, hi) or batch["seeds"] = explicit list (replay)"""
    seeds = batch.get("seeds")
    if seeds is None:
        seeds = range(batch["range"][0], batch["range"][1])
    for i, seed in enumerate(seeds):
        c_case(seed, res, want_sample=i < 2)


# ------------------------------------------------------------------ (b) at QUIC level


Q_NEG = ["wrong-name", "expired", "not-yet", "self-signed", "untrusted-ca", "wrong-key",
         "untrusted-ca+root-in-chain", "untrusted-inter+root-in-chain", "untrusted-inter-in-chain"]
# requested name is an IP literal (never sent as SNI, still to be matched against the certificate's iPAddress names)
Q_NEG += ["ipv4-name:cert-for-dns-name", "ipv6-name:cert-for-dns-name", "ipv4-name:cert-for-other-ip"]
Q_POS = ["control-good", "good-via-intermediate", "good+ca-in-chain", "ipv4-name:cert-for-that-ip", "ipv6-name:cert-for-that-ip"]
IP_CASES = {
    "ipv4-name:cert-for-dns-name": ("192.0.2.10", "localhost"),
    "ipv6-name:cert-for-dns-name": ("2001:db8::1", "localhost"),
    "ipv4-name:cert-for-other-ip": ("192.0.2.10", "192.0.2.99"),
    "ipv4-name:cert-for-that-ip": ("192.0.2.10", "192.0.2.10"),
    "ipv6-name:cert-for-that-ip": ("2001:db8::1", "2001:db8::1"),
}


def q_negauth(batch, res):
    kinds = batch.get("kinds") or KEY_TYPES
    cases = batch.get("cases") or (Q_NEG + Q_POS)
    for kind in kinds:
        for case_name in cases:
            o = {"key": kind, "alpn_c": ["vf"], "alpn_s": ["vf"], "versions_c": ["v1", "v2"], "versions_s": ["v1", "v2"], "suites_c": None, "suites_s": None,
                 "retry": False, "client_cert": None}
            if case_name in IP_CASES:
                o["server_name"], o["cert_cn"] = IP_CASES[case_name]
            elif case_name == "wrong-key":
                o["wrong_key"] = True
            elif case_name != "control-good":
                o["flavour"] = case_name
            store = TicketStore()
            sim, mon = run_hs(o, {"delay": 0.02, "adv_seconds": 0.0}, 7, store, horizon=60.0)
            res.evaluations += 1
            rep = {"gen": "q_negauth", "kinds": [kind], "cases": [case_name]}
            cev = mon.completed.get("client")
            if case_name in Q_POS:
                res.count("b_quic_positive_controls")
                if case_name != "control-good" and not (cev and mon.completed.get("server")):
                    # not a violation of C03 (which only bounds when completion may be reported), but the negative chain
                    # cases prove nothing if chains are rejected wholesale
                    res.inconclusive.append("q_negauth: valid chain %s (%s) did not complete: %s" % (case_name, kind, _conn_state(sim.client)))
                elif not (cev and mon.completed.get("server")):
                    res.inconclusive.append("q_negauth control %s did not complete: %s | %s" % (kind, _conn_state(sim.client), _conn_state(sim.server)))
                else:
                    res.nontrivial.add("bq:%s:%s" % (case_name, kind))
                continue
            res.count("b_quic_negative_cases")
            if cev:
                res.violation(
                    "b:client-emits-HandshakeCompleted:%s" % case_name,
                    "client completed against a server presenting a %s certificate/key (%s)" % (case_name, kind), rep,
                    {"client": _conn_state(sim.client), "server": _conn_state(sim.server)},
                )
            else:
                code = sim.client.term_event.error_code if sim.client.term_event is not None else None
                res.count("bq_outcome:%s:close=%s" % (case_name, hex(code) if code is not None else "none"))
                res.nontrivial.add("bq:%s:%s:%s" % (case_name, kind, code))


# ------------------------------------------------------------------ (d) on-path alteration of Initial packets


def _varint(b, p):
    first = b[p]
    ln = 1 << (first >> 6)
    return int.from_bytes(b[p : p + ln], "big") & ((1 << (8 * ln - 2)) - 1), p + ln


def open_initial(datagram: bytes, sender: str, odcid: bytes):
    """-> dict(keys, header_wo_pn, pn, pn_len, payload, end) for the first packet of the datagram (must be Initial)"""
    p = 1
    version = int.from_bytes(datagram[p : p + 4], "big")
    p += 4
    dl = datagram[p]
    p += 1 + dl
    sl = datagram[p]
    p += 1 + sl
    tl, p = _varint(datagram, p)
    p += tl
    length, p = _varint(datagram, p)
    pn_off, end = p, p + length
    ck, sk = rc.initial_keys(version, odcid)
    keys = ck if sender == "client" else sk
    pkt = datagram[:end]
    first, pn_len, trunc, header = rc.unprotect_header(keys, pkt, pn_off)
    payload = keys.open(trunc, header, pkt[pn_off + pn_len :])
    return {"keys": keys, "header_wo_pn": header[:-pn_len], "pn": trunc, "pn_len": pn_len, "payload": payload, "end": end, "version": version}


def crypto_span(payload: bytes):
    """(start, length) of the data of the first CRYPTO frame in an Initial payload"""
    p = 0
    while p < len(payload):
        t = payload[p]
        if t == 0x00 or t == 0x01:
            p += 1
        elif t in (0x02, 0x03):
            p += 1
            _, p = _varint(payload, p)
            _, p = _varint(payload, p)
            cnt, p = _varint(payload, p)
            _, p = _varint(payload, p)
            for _ in range(cnt):
                _, p = _varint(payload, p)
                _, p = _varint(payload, p)
            if t == 0x03:
                for _ in range(3):
                    _, p = _varint(payload, p)
        elif t == 0x06:
            p += 1
            _, p = _varint(payload, p)
            ln, p = _varint(payload, p)
            return p, ln
        else:
            return None
    return None


def reprotect(datagram: bytes, info: dict, payload: bytes) -> bytes:
    pkt = rc.protect(info["keys"], info["header_wo_pn"], info["pn"], info["pn_len"], payload)
    assert len(pkt) == info["end"]
    return pkt + datagram[info["end"] :]


class Lockstep:
    """loss-free datagram ping-pong between a real client and a real server (no timers needed)"""

    def __init__(self, o):
        from aioquic.quic.connection import QuicConnection

        self.ccfg, self.scfg = build_configs(o)
        self.client = QuicConnection(configuration=self.ccfg)
        self.server = None
        self.now = 0.0
        self.events = {"client": [], "server": []}
        self.raised = {}
        self.client.connect(SERVER_ADDR, now=self.now)
        self.odcid = self.client.original_destination_connection_id

    def out(self, side):
        conn = self.client if side == "client" else self.server
        if conn is None or side in self.raised:
            return []
        d = [x for x, _a in conn.datagrams_to_send(now=self.now)]
        self.drain(side)
        return d

    def drain(self, side):
        conn = self.client if side == "client" else self.server
        while True:
            ev = conn.next_event()
            if ev is None:
                break
            self.events[side].append(ev)

    def deliver(self, side, data):
        from aioquic.quic.connection import QuicConnection

        if side == "server" and self.server is None:
            self.server = QuicConnection(configuration=self.scfg, original_destination_connection_id=self.odcid)
        conn = self.client if side == "client" else self.server
        if side in self.raised:
            return
        try:
            conn.receive_datagram(data, CLIENT_ADDR if side == "server" else SERVER_ADDR, now=self.now)
        except Exception as exc:  # typing is C05's business; the endpoint takes no further part
            self.raised[side] = exc
            return
        self.drain(side)

    def completed(self, side):
        return any(type(e).__name__ == "HandshakeCompleted" for e in self.events[side])

    def pingpong(self, first_to_server=None, first_to_client=None, rounds=10):
        to_server = list(first_to_server) if first_to_server is not None else self.out("client")
        to_client = list(first_to_client) if first_to_client is not None else []
        for _ in range(rounds):
            if not to_server and not to_client:
                break
            self.now += 0.01
            for d in to_server:
                self.deliver("server", d)
            to_client += self.out("server")
            to_server = []
            self.now += 0.01
            for d in to_client:
                self.deliver("client", d)
            to_client = []
            to_server = self.out("client")


def d_initial_flip(batch, res):
    from .c03_tls import MASKS, boundaries, field_at, fields, is_length_field, masks_for

    version = batch["version"]
    which = batch["which"]  # "ClientHello" | "ServerHello"
    o = {"key": batch.get("key", "p256"), "alpn_c": ["vf"], "alpn_s": ["vf"], "versions_c": [version], "versions_s": [version],
         "suites_c": None, "suites_s": None, "retry": False, "client_cert": None}
    case0 = {"gen": "d_initial_flip", "version": version, "which": which, "key": o["key"]}

    def prefix():
        ls = Lockstep(o)
        first = ls.out("client")
        if which == "ClientHello":
            return ls, "client", first, []
        for d in first:
            ls.deliver("server", d)
        sd = ls.out("server")
        return ls, "server", sd, sd[1:]

    # reference: structure of the message and a sanity run of the harness (decrypt, re-encrypt unchanged)
    ls, sender, dgrams, _rest = prefix()
    info = open_initial(dgrams[0], sender, ls.odcid)
    span = crypto_span(info["payload"])
    if span is None:
        res.inconclusive.append("d: no CRYPTO frame in first %s Initial" % sender)
        return
    start, ln = span
    msg = info["payload"][start : start + ln]
    if reprotect(dgrams[0], info, info["payload"]) != dgrams[0]:
        res.inconclusive.append("d: harness re-protection of the unaltered Initial is not byte-identical")
        return
    if which == "ClientHello":
        ls.pingpong(first_to_server=dgrams)
    else:
        ls.pingpong(first_to_server=[], first_to_client=dgrams)
    if not (ls.completed("client") and ls.completed("server")):
        res.inconclusive.append("d: unaltered lock-step handshake did not complete (%r)" % ls.raised)
        return
    res.count("d_reference_handshakes")
    targets = batch.get("targets")
    if targets is None:
        bnd = boundaries(msg)
        stride, phase = batch.get("stride", 1), batch.get("seed", 0) % max(1, batch.get("stride", 1))
        name_at = {}
        for s_, e_, n_ in fields(msg):
            for p_ in range(s_, e_):
                name_at[p_] = n_
        base = batch.get("masks") or MASKS
        full = bool(batch.get("full_length_masks"))
        allt = []
        for pos in range(ln):
            n_ = name_at.get(pos, "?")
            special = n_ == "msg_type" or is_length_field(n_)
            if special or stride <= 1 or pos in bnd or pos % stride == phase:
                # header bytes / length fields: every value-decreasing mask (thorough: all 255)
                allt.extend((pos, m) for m in masks_for(n_, msg[pos], base, full))
        targets = allt[batch.get("shard", 0) :: batch.get("nshards", 1)]
    receiver = "server" if which == "ClientHello" else "client"
    for pos, mask in targets:
        ls, sender, dgrams, _rest = prefix()
        info = open_initial(dgrams[0], sender, ls.odcid)
        span = crypto_span(info["payload"])
        start, ln2 = span
        p = min(pos, ln2 - 1)
        pl = bytearray(info["payload"])
        pl[start + p] ^= mask
        altered = reprotect(dgrams[0], info, bytes(pl))
        fld = field_at(bytes(info["payload"][start : start + ln2]), p)
        if which == "ClientHello":
            ls.pingpong(first_to_server=[altered] + dgrams[1:])
        else:
            ls.pingpong(first_to_server=[], first_to_client=[altered] + dgrams[1:])
        res.evaluations += 1
        res.count("d_alterations:" + which)
        if ls.completed(receiver):
            res.violation(
                "d:receiver-completes:%s-altered-in-Initial:%s" % (which, receiver),
                "%s emitted HandshakeCompleted after byte %d (%s) of the %s in the Initial packet was XORed with 0x%02x (version %s); other side completed: %s"
                % (receiver, p, fld, which, mask, version, ls.completed(sender)),
                dict(case0, targets=[[pos, mask]]),
                {"field": fld, "pos": p, "mask": mask},
            )
            continue
        if receiver in ls.raised:
            out = "raised:" + type(ls.raised[receiver]).__name__
        else:
            conn = ls.client if receiver == "client" else ls.server
            closed = [e for e in ls.events[receiver] if type(e).__name__ == "ConnectionTerminated"]
            if closed:
                out = "closed:0x%x" % closed[0].error_code
            elif conn._close_event is not None or conn._close_pending:
                out = "closing:0x%x" % (conn._close_event.error_code if conn._close_event is not None else 0)
            else:
                out = "stalled"
        res.count("d_outcome:" + out)
        if ls.completed(sender):
            res.count("obs_d_unaltered_side_completed")
        res.nontrivial.add("d:%s:%s:%s:%s" % (version, which, fld, out))
        res.sample({"gen": "d_initial_flip", "version": version, "which": which, "pos": p, "field": fld, "mask": mask, "outcome": out}, limit=1)
