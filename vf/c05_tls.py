"""C05: a small independent TLS 1.3 handshake-message codec (no aioquic code) and the catalogue of
structurally valid-but-hostile variants of each message.

A message is handled as (type, body).  ClientHello / ServerHello / EncryptedExtensions /
NewSessionTicket / CertificateRequest are parsed into a dict with an ordered extension list
[(type, body)], patched, and re-encoded; length fields are always re-computed unless the mutation
is about a lying length field.
"""

from __future__ import annotations

from .frames import enc_varint

CH, SH, NST, EOED, EE, CERT, CR, CV, FIN, KU = 1, 2, 4, 5, 8, 11, 13, 15, 20, 24
MSG_NAME = {CH: "ClientHello", SH: "ServerHello", NST: "NewSessionTicket", EE: "EncryptedExtensions", CERT: "Certificate",
            CR: "CertificateRequest", CV: "CertificateVerify", FIN: "Finished", KU: "KeyUpdate", EOED: "EndOfEarlyData"}

X_SNI, X_GROUPS, X_SIGALGS, X_ALPN, X_PSK, X_EARLY, X_VERSIONS, X_COOKIE, X_PSKMODES, X_KEYSHARE, X_TP = 0, 10, 13, 16, 41, 42, 43, 44, 45, 51, 0x39
EXT_NAME = {X_SNI: "server_name", X_GROUPS: "supported_groups", X_SIGALGS: "signature_algorithms", X_ALPN: "alpn",
            X_PSK: "pre_shared_key", X_EARLY: "early_data", X_VERSIONS: "supported_versions", X_PSKMODES: "psk_modes",
            X_KEYSHARE: "key_share", X_TP: "transport_parameters", X_COOKIE: "cookie"}

BOUNDS = [0, 1, 63, 64, 16383, 16384, (1 << 30) - 1, 1 << 30, (1 << 62) - 1]


def u8(v):
    return bytes([v & 0xFF])


def u16(v):
    return (v & 0xFFFF).to_bytes(2, "big")


def u24(v):
    return (v & 0xFFFFFF).to_bytes(3, "big")


def u32(v):
    return (v & 0xFFFFFFFF).to_bytes(4, "big")


def vec(n, data):
    return len(data).to_bytes(n, "big") + data


def msg(t, body, length=None):
    return u8(t) + u24(len(body) if length is None else length) + body


class R:
    def __init__(self, d):
        self.d = bytes(d)
        self.p = 0

    def take(self, n):
        if self.p + n > len(self.d):
            raise ValueError("short")
        v = self.d[self.p : self.p + n]
        self.p += n
        return v

    def u(self, n):
        return int.from_bytes(self.take(n), "big")

    def vec(self, n):
        return self.take(self.u(n))

    def rest(self):
        v = self.d[self.p :]
        self.p = len(self.d)
        return v


def parse_exts(data):
    r = R(data)
    out = []
    while r.p < len(r.d):
        t = r.u(2)
        out.append((t, r.vec(2)))
    return out


def build_exts(exts):
    return vec(2, b"".join(u16(t) + (vec(2, b) if not isinstance(b, tuple) else u16(b[0]) + b[1]) for t, b in exts))


def parse_ch(body):
    r = R(body)
    d = {"ver": r.u(2), "random": r.take(32), "sid": r.vec(1)}
    cs = r.vec(2)
    d["suites"] = [int.from_bytes(cs[i : i + 2], "big") for i in range(0, len(cs), 2)]
    d["comp"] = r.vec(1)
    d["exts"] = parse_exts(r.vec(2))
    return d


def build_ch(d):
    b = u16(d["ver"]) + d["random"] + vec(1, d["sid"])
    b += vec(2, d.get("suites_raw") if d.get("suites_raw") is not None else b"".join(u16(x) for x in d["suites"]))
    b += vec(1, d["comp"])
    if d["exts"] is not None:
        b += build_exts(d["exts"])
    return b


def parse_sh(body):
    r = R(body)
    d = {"ver": r.u(2), "random": r.take(32), "sid": r.vec(1), "suite": r.u(2), "comp": r.u(1)}
    d["exts"] = parse_exts(r.vec(2))
    return d


def build_sh(d):
    b = u16(d["ver"]) + d["random"] + vec(1, d["sid"]) + u16(d["suite"]) + u8(d["comp"])
    if d["exts"] is not None:
        b += build_exts(d["exts"])
    return b


def parse_cert(body):
    r = R(body)
    ctx = r.vec(1)
    lst = R(r.vec(3))
    entries = []
    while lst.p < len(lst.d):
        der = lst.vec(3)
        ext = lst.vec(2)
        entries.append((der, ext))
    return {"ctx": ctx, "entries": entries}


def build_cert(d):
    return vec(1, d["ctx"]) + vec(3, b"".join(vec(3, der) + vec(2, ext) for der, ext in d["entries"]))


def parse_tp(data):
    """[(id, value bytes)] — QUIC transport parameters use varints."""
    out = []
    p = 0

    def varint():
        nonlocal p
        first = data[p]
        ln = 1 << (first >> 6)
        v = int.from_bytes(data[p : p + ln], "big") & ((1 << (8 * ln - 2)) - 1)
        p += ln
        return v

    while p < len(data):
        i = varint()
        ln = varint()
        out.append((i, data[p : p + ln]))
        p += ln
    return out


def build_tp(params):
    return b"".join(enc_varint(i) + enc_varint(len(v)) + v for i, v in params)


# ----------------------------------------------------------------------------- extension bodies


def ks_entry(group, key):
    return u16(group) + vec(2, key)


def ext_keyshare_ch(entries):
    return vec(2, b"".join(ks_entry(g, k) for g, k in entries))


def ext_sni(names):
    return vec(2, b"".join(u8(t) + vec(2, n) for t, n in names))


def ext_alpn(protos):
    return vec(2, b"".join(vec(1, p) for p in protos))


def real_point(curve_name):
    from cryptography.hazmat.primitives.asymmetric import ec
    from cryptography.hazmat.primitives.serialization import Encoding, PublicFormat

    curve = {"p256": ec.SECP256R1, "p384": ec.SECP384R1, "p521": ec.SECP521R1}[curve_name]()
    return ec.generate_private_key(curve).public_key().public_bytes(Encoding.X962, PublicFormat.UncompressedPoint)


GROUPS = {"p256": 0x17, "p384": 0x18, "p521": 0x19, "x25519": 0x1D, "x448": 0x1E, "grease": 0xAAAA, "ffdhe2048": 0x100, "unknown": 0x7777}

# (label, group, key-bytes factory)
KEY_SHARES = [
    ("x25519-ok", 0x1D, lambda: bytes(range(1, 33))),
    ("x25519-len0", 0x1D, lambda: b""),
    ("x25519-len31", 0x1D, lambda: bytes(31)),
    ("x25519-len33", 0x1D, lambda: bytes(range(33))),
    ("x25519-zero", 0x1D, lambda: bytes(32)),
    ("x25519-one", 0x1D, lambda: b"\x01" + bytes(31)),
    ("x25519-ff", 0x1D, lambda: b"\xff" * 32),
    ("x25519-loworder", 0x1D, lambda: bytes.fromhex("e0eb7a7c3b41b8ae1656e3faf19fc46ada098deb9c32b1fd866205165f49b800")),
    ("x448-ok", 0x1E, lambda: bytes(range(1, 57))),
    ("x448-len55", 0x1E, lambda: bytes(55)),
    ("x448-zero", 0x1E, lambda: bytes(56)),
    ("x448-ff", 0x1E, lambda: b"\xff" * 56),
    ("p256-ok", 0x17, lambda: real_point("p256")),
    ("p256-offcurve", 0x17, lambda: b"\x04" + bytes(range(64))),
    ("p256-len1", 0x17, lambda: b"\x04"),
    ("p256-empty", 0x17, lambda: b""),
    ("p256-infinity", 0x17, lambda: b"\x00"),
    ("p256-compressed", 0x17, lambda: b"\x02" + bytes(range(32))),
    ("p256-wrongcurve", 0x17, lambda: real_point("p384")),
    ("p256-zeros", 0x17, lambda: b"\x04" + bytes(64)),
    ("p384-ok", 0x18, lambda: real_point("p384")),
    ("p384-offcurve", 0x18, lambda: b"\x04" + bytes(96)),
    ("p521-ok", 0x19, lambda: real_point("p521")),
    ("p521-offcurve", 0x19, lambda: b"\x04" + bytes(132)),
    ("grease", 0xAAAA, lambda: b"\x00"),
    ("unknown-group", 0x7777, lambda: bytes(32)),
    ("ffdhe2048", 0x100, lambda: bytes(256)),
    ("group0", 0, lambda: b""),
]
KEY_SHARE_BY_LABEL = {k[0]: k for k in KEY_SHARES}

TP_INT_IDS = [0x01, 0x03, 0x04, 0x05, 0x06, 0x07, 0x08, 0x09, 0x0A, 0x0B, 0x0E, 0x20]
TP_NAMES = {0: "odcid", 1: "max_idle_timeout", 2: "stateless_reset_token", 3: "max_udp_payload_size", 4: "initial_max_data",
            5: "max_stream_data_bidi_local", 6: "max_stream_data_bidi_remote", 7: "max_stream_data_uni", 8: "max_streams_bidi",
            9: "max_streams_uni", 0xA: "ack_delay_exponent", 0xB: "max_ack_delay", 0xC: "disable_active_migration",
            0xD: "preferred_address", 0xE: "active_connection_id_limit", 0xF: "initial_scid", 0x10: "retry_scid",
            0x11: "version_information", 0x20: "max_datagram_frame_size", 0xC37: "quantum_readiness"}


def tp_mutations():
    """(label, function(params list) -> raw TP extension body)."""
    out = []

    def setp(params, i, v):
        ps = [(a, b) for a, b in params if a != i]
        ps.append((i, v))
        return ps

    for i in TP_INT_IDS:
        for b in BOUNDS:
            out.append(("tp:%s=%d" % (TP_NAMES[i], b), lambda ps, i=i, b=b: build_tp(setp(ps, i, enc_varint(b)))))
        out.append(("tp:%s:empty" % TP_NAMES[i], lambda ps, i=i: build_tp(setp(ps, i, b""))))
        out.append(("tp:%s:len-mismatch" % TP_NAMES[i], lambda ps, i=i: build_tp(setp(ps, i, enc_varint(5, 2) + b"\x00"))))
        out.append(("tp:%s:nonminimal" % TP_NAMES[i], lambda ps, i=i: build_tp(setp(ps, i, enc_varint(5, 8)))))
        out.append(("tp:%s:dup" % TP_NAMES[i], lambda ps, i=i: build_tp(list(ps) + [(i, enc_varint(7))])))
        out.append(("tp:%s:absent" % TP_NAMES[i], lambda ps, i=i: build_tp([(a, b) for a, b in ps if a != i])))
    for i in (0x00, 0x02, 0x0F, 0x10):
        for v in (b"", b"\x01", bytes(8), bytes(16), bytes(20), bytes(21), bytes(255)):
            out.append(("tp:%s:len%d" % (TP_NAMES[i], len(v)), lambda ps, i=i, v=v: build_tp(setp(ps, i, v))))
        out.append(("tp:%s:absent" % TP_NAMES[i], lambda ps, i=i: build_tp([(a, b) for a, b in ps if a != i])))
    out.append(("tp:disable_migration:set", lambda ps: build_tp(setp(ps, 0xC, b""))))
    out.append(("tp:disable_migration:nonempty", lambda ps: build_tp(setp(ps, 0xC, b"\x01"))))
    pa = bytes(4) + u16(443) + bytes(16) + u16(443) + u8(8) + bytes(8) + bytes(16)
    pa_real = bytes([10, 0, 0, 1]) + u16(443) + bytes(15) + b"\x01" + u16(443) + u8(8) + bytes(range(8)) + bytes(16)
    for label, v in (("zero", pa), ("real", pa_real), ("empty", b""), ("trunc5", pa[:5]), ("trunc30", pa[:30]), ("cidlen255", pa[:24] + u8(255) + bytes(24)),
                     ("cidlen0", pa[:24] + u8(0) + bytes(16)), ("extra", pa + b"\x00")):
        out.append(("tp:preferred_address:%s" % label, lambda ps, v=v: build_tp(setp(ps, 0xD, v))))
    for label, v in (("empty", b""), ("len3", bytes(3)), ("chosen0", u32(0) + u32(1)), ("avail0", u32(1) + u32(0)), ("chosen-not-avail", u32(1) + u32(0x6B3343CF)),
                     ("v2-chosen", u32(0x6B3343CF) + u32(0x6B3343CF) + u32(1)), ("only-chosen", u32(1)), ("len5", u32(1) + b"\x00"), ("many", u32(1) + u32(1) * 300),
                     ("unknown-only", u32(0xFACEB00C) + u32(0xFACEB00C)), ("grease", u32(1) + u32(0x1A2A3A4A) + u32(1))):
        out.append(("tp:version_information:%s" % label, lambda ps, v=v: build_tp(setp(ps, 0x11, v))))
    out.append(("tp:version_information:absent", lambda ps: build_tp([(a, b) for a, b in ps if a != 0x11])))
    out.append(("tp:unknown-param", lambda ps: build_tp(list(ps) + [(0x7F7F, b"xyz")])))
    out.append(("tp:unknown-param-8byte-id", lambda ps: build_tp(list(ps) + [((1 << 62) - 1, b"")])))
    out.append(("tp:quantum_readiness", lambda ps: build_tp(list(ps) + [(0xC37, b"Q" * 1200)])))
    out.append(("tp:empty", lambda ps: b""))
    out.append(("tp:one-byte", lambda ps: b"\x01"))
    out.append(("tp:truncated-half", lambda ps: build_tp(ps)[: len(build_tp(ps)) // 2]))
    out.append(("tp:truncated-last", lambda ps: build_tp(ps)[:-1]))
    out.append(("tp:len-overrun", lambda ps: build_tp(ps) + enc_varint(4) + enc_varint(50) + b"\x01"))
    out.append(("tp:id-only", lambda ps: build_tp(ps) + enc_varint(4)))
    out.append(("tp:huge-len", lambda ps: build_tp(ps) + enc_varint(4) + enc_varint((1 << 62) - 1)))
    out.append(("tp:all-dup", lambda ps: build_tp(list(ps) + list(ps))))
    out.append(("tp:reversed", lambda ps: build_tp(list(reversed(ps)))))
    out.append(("tp:garbage", lambda ps: bytes(range(200))))
    return out


TP_MUTS = tp_mutations()
TP_MUT_BY_LABEL = dict(TP_MUTS)


def _ext_ops(present):
    """generic per-extension operations."""
    ops = []
    for t in present:
        n = EXT_NAME.get(t, "ext%d" % t)
        ops += [("ext-missing:" + n, ("missing", t)), ("ext-dup:" + n, ("dup", t)), ("ext-empty:" + n, ("empty", t)),
                ("ext-oversized:" + n, ("oversized", t)), ("ext-trunc-half:" + n, ("trunc", t)), ("ext-len-short:" + n, ("lenlie", t, -1)),
                ("ext-len-long:" + n, ("lenlie", t, 1)), ("ext-garbage:" + n, ("garbage", t)), ("ext-first:" + n, ("first", t)),
                ("ext-last:" + n, ("last", t))]
    return ops


def apply_ext_op(exts, op, rng):
    kind, t = op[0], op[1]
    idx = [i for i, (a, _b) in enumerate(exts) if a == t]
    if not idx:
        return exts + [(t, b"")] if kind in ("dup", "empty") else exts
    i = idx[0]
    body = exts[i][1]
    e = list(exts)
    if kind == "missing":
        e = [x for x in e if x[0] != t]
    elif kind == "dup":
        e.insert(i + 1, (t, body))
    elif kind == "empty":
        e[i] = (t, b"")
    elif kind == "oversized":
        e[i] = (t, body + bytes(20000))
    elif kind == "trunc":
        e[i] = (t, body[: len(body) // 2])
    elif kind == "lenlie":
        e[i] = (t, (max(0, len(body) + op[2]), body))  # declared length lies, body kept
    elif kind == "garbage":
        e[i] = (t, bytes(rng.randrange(256) for _ in range(max(4, len(body)))))
    elif kind == "first":
        x = e.pop(i)
        e.insert(0, x)
    elif kind == "last":
        x = e.pop(i)
        e.append(x)
    return e


# ----------------------------------------------------------------------------- ClientHello catalogue


def ch_catalogue(ch_body):
    """list of (label, op) for a genuine ClientHello body."""
    d = parse_ch(ch_body)
    present = [t for t, _ in d["exts"]]
    ops = [("genuine", ("none",))]
    ops += _ext_ops(present)
    ops.append(("key_share:absent", ("ext", ("missing", X_KEYSHARE))))
    ops.append(("key_share:empty-list", ("ks", [])))
    for label, _g, _f in KEY_SHARES:
        ops.append(("key_share:" + label, ("ks", [label])))
    ops.append(("key_share:grease+unknown", ("ks", ["grease", "unknown-group"])))
    ops.append(("key_share:bad-then-good", ("ks", ["p256-offcurve", "x25519-ok"])))
    ops.append(("key_share:unknown-then-good", ("ks", ["unknown-group", "x25519-ok"])))
    ops.append(("key_share:dup-group", ("ks", ["x25519-ok", "x25519-ok"])))
    ops.append(("key_share:100-entries", ("ks", ["grease"] * 100)))
    ops.append(("key_share:list-len-lie", ("ksraw", u16(50) + ks_entry(0x1D, bytes(32)))))
    ops.append(("key_share:entry-len-lie", ("ksraw", vec(2, u16(0x1D) + u16(64) + bytes(32)))))
    for label, names in (("non-ascii", [(0, "héllo.example".encode("utf8"))]), ("latin1-ff", [(0, b"\xff\xfe")]), ("wrong-type", [(1, b"localhost")]),
                         ("type255", [(255, b"x")]), ("empty-name", [(0, b"")]), ("two-names", [(0, b"a.example"), (0, b"b.example")]),
                         ("huge", [(0, b"a" * 60000)]), ("nul", [(0, b"local\x00host")]), ("empty-list", []), ("ip", [(0, b"127.0.0.1")]),
                         ("trailing-dot", [(0, b"localhost.")]), ("underscore-utf8-bom", [(0, b"\xef\xbb\xbflocalhost")])):
        ops.append(("server_name:" + label, ("setext", X_SNI, ext_sni(names).hex())))
    ops.append(("server_name:list-len-lie", ("setext", X_SNI, (u16(100) + u8(0) + vec(2, b"localhost")).hex())))
    ops.append(("server_name:name-len-lie", ("setext", X_SNI, vec(2, u8(0) + u16(100) + b"localhost").hex())))
    for label, protos in (("empty-list", []), ("only-non-ascii", [b"\xff\xfe", b"\x80"]), ("zero-length-proto", [b""]), ("mismatch", [b"nope"]),
                          ("len255", [b"a" * 255]), ("many", [b"p%d" % i for i in range(500)]), ("non-ascii-then-ok", [b"\xc3\xa9", b"vf"]),
                          ("ok-dup", [b"vf", b"vf"]), ("nul", [b"v\x00f"])):
        ops.append(("alpn:" + label, ("setext", X_ALPN, ext_alpn(protos).hex())))
    ops.append(("alpn:list-len-lie", ("setext", X_ALPN, (u16(40) + vec(1, b"vf")).hex())))
    ops.append(("alpn:proto-len-lie", ("setext", X_ALPN, vec(2, u8(9) + b"vf").hex())))
    for label, vs in (("empty", b""), ("only-1.2", u16(0x0303)), ("grease+1.3", u16(0x0A0A) + u16(0x0304)), ("only-grease", u16(0x0A0A)),
                      ("draft28", u16(0x7F1C)), ("odd-length", u16(0x0304) + b"\x03"), ("many", u16(0x0A0A) * 120 + u16(0x0304))):
        ops.append(("supported_versions:" + label, ("setext", X_VERSIONS, vec(1, vs).hex())))
    for label, v in (("empty", b""), ("unknown-only", u16(0xFEFE)), ("ed25519-only", u16(0x0807)), ("ecdsa-only", u16(0x0403)), ("odd-length", u16(0x0804) + b"\x08"),
                     ("sha1-only", u16(0x0201)), ("many", u16(0x0A0A) * 1000 + u16(0x0804))):
        ops.append(("signature_algorithms:" + label, ("setext", X_SIGALGS, vec(2, v).hex())))
    for label, v in (("empty", b""), ("unknown-only", u16(0x7777)), ("odd-length", u16(0x1D) + b"\x00")):
        ops.append(("supported_groups:" + label, ("setext", X_GROUPS, vec(2, v).hex())))
    for label, v in (("empty", b""), ("psk_ke-only", b"\x00"), ("unknown", b"\x07"), ("both", b"\x00\x01"), ("many", bytes(255))):
        ops.append(("psk_modes:" + label, ("setext", X_PSKMODES, vec(1, v).hex())))
    ident = vec(2, b"ticket-identity") + u32(12345)
    for label, body, modes in (
        ("unsolicited-1", vec(2, ident) + vec(2, vec(1, bytes(32))), True),
        ("unsolicited-no-modes", vec(2, ident) + vec(2, vec(1, bytes(32))), False),
        ("two-identities", vec(2, ident + ident) + vec(2, vec(1, bytes(32)) + vec(1, bytes(32))), True),
        ("binder-count-mismatch", vec(2, ident + ident) + vec(2, vec(1, bytes(32))), True),
        ("no-binders", vec(2, ident) + vec(2, b""), True),
        ("no-identities", vec(2, b"") + vec(2, vec(1, bytes(32))), True),
        ("short-binder", vec(2, ident) + vec(2, vec(1, b"\x01")), True),
        ("empty-binder", vec(2, ident) + vec(2, vec(1, b"")), True),
        ("long-binder", vec(2, ident) + vec(2, vec(1, bytes(255))), True),
        ("empty-identity", vec(2, vec(2, b"") + u32(0)) + vec(2, vec(1, bytes(32))), True),
        ("truncated", (vec(2, ident) + vec(2, vec(1, bytes(32))))[:10], True),
        ("empty-ext", b"", True),
    ):
        ops.append(("pre_shared_key:" + label, ("psk", body.hex(), modes, True)))
    ops.append(("pre_shared_key:not-last", ("psk", (vec(2, ident) + vec(2, vec(1, bytes(32)))).hex(), True, False)))
    ops.append(("early_data:without-psk", ("addext", X_EARLY, "")))
    ops.append(("early_data:nonempty", ("addext", X_EARLY, "00000001")))
    ops.append(("cookie:unsolicited", ("addext", X_COOKIE, vec(2, b"cookie").hex())))
    ops.append(("unknown-ext:empty", ("addext", 0xFAFA, "")))
    ops.append(("unknown-ext:big", ("addext", 0xFAFA, (b"z" * 3000).hex())))
    ops.append(("draft-tp-ext-only", ("retype", X_TP, 0xFFA5)))
    for label, raw in (("empty", b""), ("unknown-only", u16(0x1399)), ("odd-length", u16(0x1301) + b"\x13"), ("scsv-only", u16(0x00FF)),
                       ("tls12-suites", u16(0xC02F) + u16(0xC030)), ("chacha-only", u16(0x1303)), ("aes256-only", u16(0x1302)), ("many", u16(0x0A0A) * 2000 + u16(0x1301))):
        ops.append(("cipher_suites:" + label, ("suites", raw.hex())))
    for label, raw in (("empty", b""), ("non-null", b"\x01"), ("null+deflate", b"\x00\x01"), ("many", bytes(255))):
        ops.append(("compression:" + label, ("comp", raw.hex())))
    for v in (0x0304, 0x0302, 0x0000, 0xFFFF):
        ops.append(("legacy_version:%04x" % v, ("ver", v)))
    for n in (1, 32, 33, 255):
        ops.append(("session_id:len%d" % n, ("sid", n)))
    ops.append(("no-extensions-block", ("noexts",)))
    ops.append(("empty-extensions-block", ("emptyexts",)))
    ops.append(("extensions-len-lie-long", ("extslen", 7)))
    ops.append(("extensions-len-lie-short", ("extslen", -3)))
    ops.append(("trailing-garbage-in-body", ("trail", 5)))
    for n in (0, 1, 2, 34, 35, 40):
        ops.append(("body-truncated:%d" % n, ("bodytrunc", n)))
    ops.append(("body-truncated:half", ("bodytrunc", -1)))
    ops.append(("msg-len-short", ("msglen", -1)))
    ops.append(("msg-len-long-then-more", ("msglen", 4)))
    ops.append(("msg-len-16M", ("msglen16m",)))
    for t in (SH, NST, EOED, EE, CERT, CR, CV, FIN, KU, 0, 3, 254, 255):
        ops.append(("wrong-msg-type:%d" % t, ("mtype", t)))
    ops.append(("two-client-hellos", ("twice",)))
    ops.append(("empty-then-ch", ("prefix", msg(CH, b"").hex())))
    for label, f in TP_MUTS:
        ops.append((label, ("tp", label)))
    ops.append(("tp:ext-dup-different", ("tpdup",)))
    return ops


def apply_ch(ch_body, op, rng, server_only_tp=None):
    """returns raw bytes to put on the CRYPTO stream (one or more handshake messages)."""
    d = parse_ch(ch_body)
    kind = op[0]
    mtype = CH
    length = None
    pre = b""
    post = b""
    if kind == "none":
        pass
    elif kind in ("missing", "dup", "empty", "oversized", "trunc", "lenlie", "garbage", "first", "last"):
        d["exts"] = apply_ext_op(d["exts"], op, rng)
    elif kind == "ext":
        d["exts"] = apply_ext_op(d["exts"], op[1], rng)
    elif kind == "ks":
        entries = [(KEY_SHARE_BY_LABEL[l][1], KEY_SHARE_BY_LABEL[l][2]()) for l in op[1]]
        d["exts"] = [(t, ext_keyshare_ch(entries) if t == X_KEYSHARE else b) for t, b in d["exts"]]
    elif kind == "ksraw":
        d["exts"] = [(t, op[1] if t == X_KEYSHARE else b) for t, b in d["exts"]]
    elif kind == "setext":
        body = bytes.fromhex(op[2])
        if any(t == op[1] for t, _ in d["exts"]):
            d["exts"] = [(t, body if t == op[1] else b) for t, b in d["exts"]]
        else:
            d["exts"].append((op[1], body))
    elif kind == "addext":
        d["exts"].append((op[1], bytes.fromhex(op[2])))
    elif kind == "retype":
        d["exts"] = [(op[2] if t == op[1] else t, b) for t, b in d["exts"]]
    elif kind == "psk":
        body, modes, last = bytes.fromhex(op[1]), op[2], op[3]
        d["exts"] = [(t, b) for t, b in d["exts"] if t not in (X_PSK,) and (modes or t != X_PSKMODES)]
        if modes and not any(t == X_PSKMODES for t, _ in d["exts"]):
            d["exts"].append((X_PSKMODES, vec(1, b"\x01")))
        if last:
            d["exts"].append((X_PSK, body))
        else:
            d["exts"].insert(0, (X_PSK, body))
    elif kind == "suites":
        d["suites_raw"] = bytes.fromhex(op[1])
    elif kind == "comp":
        d["comp"] = bytes.fromhex(op[1])
    elif kind == "ver":
        d["ver"] = op[1]
    elif kind == "sid":
        d["sid"] = bytes(op[1])
    elif kind == "noexts":
        d["exts"] = None
    elif kind == "emptyexts":
        d["exts"] = []
    elif kind == "tp":
        f = TP_MUT_BY_LABEL[op[1]]
        d["exts"] = [(t, f(parse_tp(b)) if t == X_TP else b) for t, b in d["exts"]]
    elif kind == "tpdup":
        tp = [b for t, b in d["exts"] if t == X_TP]
        d["exts"].append((X_TP, build_tp([(4, enc_varint(1))]) if not tp else build_tp(parse_tp(tp[0])[:3])))
    body = build_ch(d)
    if kind == "extslen":
        full = build_ch(dict(d, exts=None))
        ex = build_exts(d["exts"])
        body = full + u16(len(ex) - 2 + op[1]) + ex[2:]
    elif kind == "trail":
        body += bytes(op[1])
    elif kind == "bodytrunc":
        body = body[: (len(body) // 2 if op[1] < 0 else op[1])]
    elif kind == "msglen":
        length = len(body) + op[1]
        if op[1] > 0:
            post = msg(CH, body)
    elif kind == "msglen16m":
        length = 0xFFFFFF
    elif kind == "mtype":
        mtype = op[1]
    elif kind == "twice":
        post = msg(CH, body)
    elif kind == "prefix":
        pre = bytes.fromhex(op[1])
    return pre + msg(mtype, body, length) + post


# ----------------------------------------------------------------------------- ServerHello catalogue


def sh_catalogue(sh_body):
    d = parse_sh(sh_body)
    present = [t for t, _ in d["exts"]]
    ops = [("genuine", ("none",))]
    ops += _ext_ops(present)
    for label, _g, _f in KEY_SHARES:
        ops.append(("key_share:" + label, ("ks", label)))
    ops.append(("key_share:absent", ("missing", X_KEYSHARE)))
    ops.append(("key_share:entry-len-lie", ("setext", X_KEYSHARE, (u16(0x1D) + u16(64) + bytes(32)).hex())))
    ops.append(("key_share:hrr-style-group-only", ("setext", X_KEYSHARE, u16(0x1D).hex())))
    for v in (0x0303, 0x0305, 0x7F1C, 0x0000):
        ops.append(("supported_versions:%04x" % v, ("setext", X_VERSIONS, u16(v).hex())))
    ops.append(("supported_versions:absent", ("missing", X_VERSIONS)))
    ops.append(("supported_versions:one-byte", ("setext", X_VERSIONS, "03")))
    ops.append(("supported_versions:list-form", ("setext", X_VERSIONS, vec(1, u16(0x0304)).hex())))
    for idx in (0, 1, 65535):
        ops.append(("pre_shared_key:unsolicited-idx%d" % idx, ("addext", X_PSK, u16(idx).hex())))
    ops.append(("pre_shared_key:one-byte", ("addext", X_PSK, "00")))
    for cs in (0x1399, 0x00FF, 0xC02F, 0x0000):
        ops.append(("cipher_suite:not-offered-%04x" % cs, ("suite", cs)))
    for cs in (0x1301, 0x1302, 0x1303):
        ops.append(("cipher_suite:other-offered-%04x" % cs, ("suite", cs)))
    ops.append(("compression:non-null", ("comp", 1)))
    for v in (0x0304, 0x0302, 0x0000):
        ops.append(("legacy_version:%04x" % v, ("ver", v)))
    ops.append(("hello-retry-request-random", ("hrr",)))
    ops.append(("hrr-with-cookie", ("hrr_cookie",)))
    ops.append(("downgrade-sentinel", ("downgrade",)))
    ops.append(("session_id:mismatch", ("sid", 32)))
    ops.append(("session_id:len255", ("sid", 255)))
    ops.append(("unknown-ext", ("addext", 0xFAFA, "0102")))
    ops.append(("alpn-in-sh", ("addext", X_ALPN, ext_alpn([b"vf"]).hex())))
    ops.append(("tp-in-sh", ("addext", X_TP, build_tp([(4, enc_varint(100))]).hex())))
    ops.append(("no-extensions-block", ("noexts",)))
    ops.append(("empty-extensions-block", ("emptyexts",)))
    ops.append(("extensions-len-lie-long", ("extslen", 7)))
    ops.append(("extensions-len-lie-short", ("extslen", -3)))
    ops.append(("trailing-garbage-in-body", ("trail", 5)))
    for n in (0, 1, 2, 34, 35, 38):
        ops.append(("body-truncated:%d" % n, ("bodytrunc", n)))
    ops.append(("body-truncated:half", ("bodytrunc", -1)))
    ops.append(("msg-len-short", ("msglen", -1)))
    ops.append(("msg-len-long-then-more", ("msglen", 4)))
    ops.append(("msg-len-16M", ("msglen16m",)))
    for t in (CH, NST, EOED, EE, CERT, CR, CV, FIN, KU, 0, 3, 254, 255):
        ops.append(("wrong-msg-type:%d" % t, ("mtype", t)))
    ops.append(("two-server-hellos", ("twice",)))
    return ops


HRR_RANDOM = bytes.fromhex("cf21ad74e59a6111be1d8c021e65b891c2a211167abb8c5e079e09e2c8a8339c")


def apply_sh(sh_body, op, rng):
    d = parse_sh(sh_body)
    kind = op[0]
    mtype = SH
    length = None
    post = b""
    if kind in ("missing", "dup", "empty", "oversized", "trunc", "lenlie", "garbage", "first", "last"):
        d["exts"] = apply_ext_op(d["exts"], op, rng)
    elif kind == "ks":
        _l, g, f = KEY_SHARE_BY_LABEL[op[1]]
        d["exts"] = [(t, ks_entry(g, f()) if t == X_KEYSHARE else b) for t, b in d["exts"]]
    elif kind == "setext":
        body = bytes.fromhex(op[2])
        if any(t == op[1] for t, _ in d["exts"]):
            d["exts"] = [(t, body if t == op[1] else b) for t, b in d["exts"]]
        else:
            d["exts"].append((op[1], body))
    elif kind == "addext":
        d["exts"].append((op[1], bytes.fromhex(op[2])))
    elif kind == "suite":
        d["suite"] = op[1]
    elif kind == "comp":
        d["comp"] = op[1]
    elif kind == "ver":
        d["ver"] = op[1]
    elif kind == "hrr":
        d["random"] = HRR_RANDOM
    elif kind == "hrr_cookie":
        d["random"] = HRR_RANDOM
        d["exts"] = [(t, u16(0x17) if t == X_KEYSHARE else b) for t, b in d["exts"]] + [(X_COOKIE, vec(2, b"c" * 40))]
    elif kind == "downgrade":
        d["random"] = d["random"][:24] + b"DOWNGRD\x01"
    elif kind == "sid":
        d["sid"] = bytes(op[1])
    elif kind == "noexts":
        d["exts"] = None
    elif kind == "emptyexts":
        d["exts"] = []
    body = build_sh(d)
    if kind == "extslen":
        full = build_sh(dict(d, exts=None))
        ex = build_exts(d["exts"])
        body = full + u16(len(ex) - 2 + op[1]) + ex[2:]
    elif kind == "trail":
        body += bytes(op[1])
    elif kind == "bodytrunc":
        body = body[: (len(body) // 2 if op[1] < 0 else op[1])]
    elif kind == "msglen":
        length = len(body) + op[1]
        if op[1] > 0:
            post = msg(SH, body)
    elif kind == "msglen16m":
        length = 0xFFFFFF
    elif kind == "mtype":
        mtype = op[1]
    elif kind == "twice":
        post = msg(SH, body)
    return msg(mtype, body, length) + post


# ----------------------------------------------------------------------------- EncryptedExtensions


def ee_catalogue(ee_body):
    exts = parse_exts(R(ee_body).vec(2))
    present = [t for t, _ in exts]
    ops = [("genuine", ("none",))]
    ops += _ext_ops(present)
    for label, protos in (("empty-list", []), ("only-non-ascii", [b"\xff\xfe"]), ("zero-length-proto", [b""]), ("not-offered", [b"nope"]),
                          ("two-protos", [b"vf", b"h3"]), ("non-ascii-then-ok", [b"\xc3\xa9", b"vf"]), ("len255", [b"a" * 255]), ("nul", [b"v\x00f"])):
        ops.append(("alpn:" + label, ("setext", X_ALPN, ext_alpn(protos).hex())))
    ops.append(("alpn:list-len-lie", ("setext", X_ALPN, (u16(40) + vec(1, b"vf")).hex())))
    ops.append(("alpn:proto-len-lie", ("setext", X_ALPN, vec(2, u8(9) + b"vf").hex())))
    ops.append(("alpn:absent", ("missing", X_ALPN)))
    ops.append(("early_data:unsolicited", ("addext", X_EARLY, "")))
    ops.append(("early_data:nonempty", ("addext", X_EARLY, "00000001")))
    ops.append(("server_name:ack", ("addext", X_SNI, "")))
    ops.append(("server_name:full", ("addext", X_SNI, ext_sni([(0, b"\xff")]).hex())))
    ops.append(("key_share:in-ee", ("addext", X_KEYSHARE, ks_entry(0x1D, bytes(32)).hex())))
    ops.append(("supported_versions:in-ee", ("addext", X_VERSIONS, u16(0x0304).hex())))
    ops.append(("pre_shared_key:in-ee", ("addext", X_PSK, u16(0).hex())))
    ops.append(("unknown-ext:empty", ("addext", 0xFAFA, "")))
    ops.append(("unknown-ext:big", ("addext", 0xFAFA, (b"z" * 9000).hex())))
    ops.append(("draft-tp-ext-only", ("retype", X_TP, 0xFFA5)))
    ops.append(("empty-extensions-block", ("emptyexts",)))
    ops.append(("no-extensions-block", ("noexts",)))
    ops.append(("extensions-len-lie-long", ("extslen", 7)))
    ops.append(("extensions-len-lie-short", ("extslen", -3)))
    ops.append(("trailing-garbage-in-body", ("trail", 5)))
    ops.append(("body-truncated:1", ("bodytrunc", 1)))
    ops.append(("body-truncated:half", ("bodytrunc", -1)))
    ops.append(("msg-len-short", ("msglen", -1)))
    ops.append(("msg-len-long-then-more", ("msglen", 4)))
    for t in (CH, SH, NST, EOED, CERT, CR, CV, FIN, KU, 0, 255):
        ops.append(("wrong-msg-type:%d" % t, ("mtype", t)))
    ops.append(("twice", ("twice",)))
    for label, f in TP_MUTS:
        ops.append((label, ("tp", label)))
    ops.append(("tp:ext-dup-different", ("tpdup",)))
    return ops


def apply_ee(ee_body, op, rng):
    exts = parse_exts(R(ee_body).vec(2))
    kind = op[0]
    mtype = EE
    length = None
    post = b""
    if kind in ("missing", "dup", "empty", "oversized", "trunc", "lenlie", "garbage", "first", "last"):
        exts = apply_ext_op(exts, op, rng)
    elif kind == "setext":
        body = bytes.fromhex(op[2])
        if any(t == op[1] for t, _ in exts):
            exts = [(t, body if t == op[1] else b) for t, b in exts]
        else:
            exts.append((op[1], body))
    elif kind == "addext":
        exts.append((op[1], bytes.fromhex(op[2])))
    elif kind == "retype":
        exts = [(op[2] if t == op[1] else t, b) for t, b in exts]
    elif kind == "emptyexts":
        exts = []
    elif kind == "tp":
        f = TP_MUT_BY_LABEL[op[1]]
        exts = [(t, f(parse_tp(b)) if t == X_TP else b) for t, b in exts]
    elif kind == "tpdup":
        tp = [b for t, b in exts if t == X_TP]
        exts.append((X_TP, build_tp(parse_tp(tp[0])[:3]) if tp else b""))
    body = build_exts(exts) if kind != "noexts" else b""
    if kind == "extslen":
        body = u16(len(body) - 2 + op[1]) + body[2:]
    elif kind == "trail":
        body += bytes(op[1])
    elif kind == "bodytrunc":
        body = body[: (len(body) // 2 if op[1] < 0 else op[1])]
    elif kind == "msglen":
        length = len(body) + op[1]
        if op[1] > 0:
            post = msg(EE, body)
    elif kind == "mtype":
        mtype = op[1]
    elif kind == "twice":
        post = msg(EE, body)
    return msg(mtype, body, length) + post


# ----------------------------------------------------------------------------- Certificate / CertificateVerify / Finished / NST / CR


def cert_catalogue():
    ops = [("genuine", ("none",)), ("zero-entries", ("entries", 0)), ("garbage-der", ("garbage",)), ("empty-der", ("emptyder",)),
           ("truncated-der", ("truncder",)), ("der-bitflip-early", ("flip", 30)), ("der-bitflip-mid", ("flip", -1)), ("huge-chain-50", ("chain", 50)),
           ("huge-chain-500", ("chain", 500)), ("chain-garbage-second", ("chain2garbage",)), ("nonempty-context", ("ctx", 4)), ("context-255", ("ctx", 255)),
           ("entry-extensions-garbage", ("entext", "ffff0001")), ("entry-extensions-status", ("entext", "000500050100000000")),
           ("list-len-lie-long", ("listlen", 9)), ("list-len-lie-short", ("listlen", -4)), ("entry-len-lie", ("entrylen",)),
           ("trailing-garbage-in-body", ("trail", 3)), ("body-empty", ("bodytrunc", 0)), ("body-truncated:half", ("bodytrunc", -1)),
           ("msg-len-short", ("msglen", -1)), ("twice", ("twice",)), ("der-is-x25519-spki-cert", ("selfsigned", "x25519")),
           ("selfsigned-ed25519", ("selfsigned", "ed25519")), ("selfsigned-ed448", ("selfsigned", "ed448")), ("selfsigned-p256", ("selfsigned", "p256")),
           ("selfsigned-p521", ("selfsigned", "p521")), ("selfsigned-dsa", ("selfsigned", "dsa")), ("selfsigned-rsa1024", ("selfsigned", "rsa1024"))]
    for t in (CH, SH, NST, EE, CV, FIN, KU, 25, 255):
        ops.append(("wrong-msg-type:%d" % t, ("mtype", t)))
    return ops


_SELF_SIGNED = {}


def self_signed(kind):
    """DER of a throw-away certificate with a public key of the given family."""
    if kind in _SELF_SIGNED:
        return _SELF_SIGNED[kind]
    import datetime

    from cryptography import x509
    from cryptography.hazmat.primitives import hashes, serialization
    from cryptography.hazmat.primitives.asymmetric import dsa, ec, ed448, ed25519, rsa, x25519
    from cryptography.x509.oid import NameOID

    signer = None
    alg = hashes.SHA256()
    if kind == "ed25519":
        key = ed25519.Ed25519PrivateKey.generate()
        alg = None
    elif kind == "ed448":
        key = ed448.Ed448PrivateKey.generate()
        alg = None
    elif kind == "p256":
        key = ec.generate_private_key(ec.SECP256R1())
    elif kind == "p521":
        key = ec.generate_private_key(ec.SECP521R1())
    elif kind == "dsa":
        key = dsa.generate_private_key(2048)
    elif kind == "rsa1024":
        key = rsa.generate_private_key(65537, 1024)
    elif kind == "x25519":
        key = x25519.X25519PrivateKey.generate()
        signer = ec.generate_private_key(ec.SECP256R1())
    else:
        raise ValueError(kind)
    name = x509.Name([x509.NameAttribute(NameOID.COMMON_NAME, "localhost")])
    now = datetime.datetime.now(datetime.timezone.utc)
    b = (x509.CertificateBuilder().subject_name(name).issuer_name(name).public_key(key.public_key()).serial_number(1000)
         .not_valid_before(now - datetime.timedelta(days=1)).not_valid_after(now + datetime.timedelta(days=10))
         .add_extension(x509.SubjectAlternativeName([x509.DNSName("localhost")]), critical=False))
    cert = b.sign(signer or key, alg)
    der = cert.public_bytes(serialization.Encoding.DER)
    _SELF_SIGNED[kind] = der
    return der


def apply_cert(body, op, rng):
    d = parse_cert(body)
    kind = op[0]
    mtype = CERT
    length = None
    post = b""
    der0 = d["entries"][0][0] if d["entries"] else b""
    if kind == "entries":
        d["entries"] = d["entries"][: op[1]]
    elif kind == "garbage":
        d["entries"] = [(bytes(rng.randrange(256) for _ in range(600)), b"")]
    elif kind == "emptyder":
        d["entries"] = [(b"", b"")]
    elif kind == "truncder":
        d["entries"] = [(der0[: len(der0) // 2], b"")] + d["entries"][1:]
    elif kind == "flip":
        pos = op[1] if op[1] >= 0 else len(der0) // 2
        b = bytearray(der0)
        if b:
            b[min(pos, len(b) - 1)] ^= 0xFF
        d["entries"] = [(bytes(b), b"")] + d["entries"][1:]
    elif kind == "chain":
        d["entries"] = d["entries"][:1] + [(der0, b"")] * op[1]
    elif kind == "chain2garbage":
        d["entries"] = d["entries"][:1] + [(b"\x30\x03\x01\x01\x00", b"")]
    elif kind == "ctx":
        d["ctx"] = bytes(op[1])
    elif kind == "entext":
        d["entries"] = [(der0, bytes.fromhex(op[1]))] + d["entries"][1:]
    elif kind == "selfsigned":
        d["entries"] = [(self_signed(op[1]), b"")]
    body = build_cert(d)
    if kind == "listlen":
        inner = b"".join(vec(3, der) + vec(2, ext) for der, ext in d["entries"])
        body = vec(1, d["ctx"]) + u24(len(inner) + op[1]) + inner
    elif kind == "entrylen":
        inner = u24(len(der0) + 10) + der0 + u16(0)
        body = vec(1, d["ctx"]) + vec(3, inner)
    elif kind == "trail":
        body += bytes(op[1])
    elif kind == "bodytrunc":
        body = body[: (len(body) // 2 if op[1] < 0 else op[1])]
    elif kind == "msglen":
        length = len(body) + op[1]
    elif kind == "mtype":
        mtype = op[1]
    elif kind == "twice":
        post = msg(CERT, body)
    return msg(mtype, body, length) + post


SIGALGS = {"ecdsa_p256": 0x0403, "ecdsa_p384": 0x0503, "ecdsa_p521": 0x0603, "ed25519": 0x0807, "ed448": 0x0808, "rsa_pkcs1_sha256": 0x0401,
           "rsa_pkcs1_sha384": 0x0501, "rsa_pkcs1_sha512": 0x0601, "rsa_pss_pss_sha256": 0x0809, "rsa_pss_rsae_sha256": 0x0804,
           "rsa_pss_rsae_sha384": 0x0805, "rsa_pss_rsae_sha512": 0x0806, "rsa_pkcs1_sha1": 0x0201, "sha1_dsa": 0x0202, "ecdsa_sha1": 0x0203,
           "unknown_ffff": 0xFFFF, "zero": 0x0000, "md5_rsa": 0x0101}


def cv_catalogue():
    ops = [("genuine", ("none",))]
    for name in SIGALGS:
        ops.append(("alg:" + name, ("alg", SIGALGS[name])))
        ops.append(("alg:%s:empty-sig" % name, ("alg_sig", SIGALGS[name], 0)))
    for n in (0, 1, 64, 255, 256, 257, 512, 65535):
        ops.append(("sig-len:%d" % n, ("sig", n)))
    ops += [("sig-bitflip", ("flip",)), ("sig-len-lie-long", ("siglen", 5)), ("sig-len-lie-short", ("siglen", -5)), ("body-empty", ("bodytrunc", 0)),
            ("body-1", ("bodytrunc", 1)), ("body-3", ("bodytrunc", 3)), ("trailing-garbage-in-body", ("trail", 3)), ("msg-len-short", ("msglen", -1)), ("twice", ("twice",))]
    for t in (CH, SH, NST, EE, CERT, FIN, KU, 255):
        ops.append(("wrong-msg-type:%d" % t, ("mtype", t)))
    return ops


def apply_cv(body, op, rng):
    r = R(body)
    alg = r.u(2)
    sig = r.vec(2)
    kind = op[0]
    mtype = CV
    length = None
    post = b""
    if kind == "alg":
        alg = op[1]
    elif kind == "alg_sig":
        alg, sig = op[1], bytes(op[2])
    elif kind == "sig":
        sig = bytes(rng.randrange(256) for _ in range(op[1]))
    elif kind == "flip":
        b = bytearray(sig)
        b[len(b) // 2] ^= 1
        sig = bytes(b)
    out = u16(alg) + vec(2, sig)
    if kind == "siglen":
        out = u16(alg) + u16(len(sig) + op[1]) + sig
    elif kind == "bodytrunc":
        out = out[: op[1]]
    elif kind == "trail":
        out += bytes(op[1])
    elif kind == "msglen":
        length = len(out) + op[1]
    elif kind == "mtype":
        mtype = op[1]
    elif kind == "twice":
        post = msg(CV, out)
    return msg(mtype, out, length) + post


def fin_catalogue():
    ops = [("genuine", ("none",))]
    for n in (0, 1, 31, 32, 33, 47, 48, 49, 64, 255, 4000):
        ops.append(("len:%d" % n, ("len", n)))
    ops += [("bitflip", ("flip",)), ("msg-len-short", ("msglen", -1)), ("msg-len-long", ("msglen", 3)), ("twice", ("twice",))]
    for t in (CH, SH, NST, EE, CERT, CV, KU, 255):
        ops.append(("wrong-msg-type:%d" % t, ("mtype", t)))
    return ops


def apply_fin(body, op, rng):
    kind = op[0]
    mtype = FIN
    length = None
    post = b""
    if kind == "len":
        body = (body * 200)[: op[1]]
    elif kind == "flip":
        b = bytearray(body)
        b[0] ^= 1
        body = bytes(b)
    elif kind == "msglen":
        length = len(body) + op[1]
    elif kind == "mtype":
        mtype = op[1]
    elif kind == "twice":
        post = msg(FIN, body)
    return msg(mtype, body, length) + post


def nst_catalogue():
    ops = []
    for life in (0, 1, 86400, 604800, 604801, 0x7FFFFFFF, 0xFFFFFFFF):
        ops.append(("lifetime:%d" % life, ("nst", life, 8, 64, ["early_max"])))
    for nonce in (0, 1, 255):
        ops.append(("nonce-len:%d" % nonce, ("nst", 3600, nonce, 64, [])))
    for tl in (0, 1, 1000, 60000):
        ops.append(("ticket-len:%d" % tl, ("nst", 3600, 8, tl, [])))
    for ed in ("early_max", "early_0", "early_1", "early_trunc", "early_empty", "early_dup", "unknown_ext", "big_ext"):
        ops.append(("ext:" + ed, ("nst", 3600, 8, 32, [ed])))
    ops += [("body-empty", ("raw", msg(NST, b"").hex())), ("body-8", ("raw", msg(NST, bytes(8)).hex())), ("no-ext-block", ("nst_noext",)),
            ("trailing-garbage", ("nst_trail",)), ("ext-len-lie", ("nst_extlie",)), ("burst-20", ("nst_burst", 20)),
            ("key-update-msg", ("raw", msg(KU, b"\x00").hex())), ("key-update-req", ("raw", msg(KU, b"\x01").hex())),
            ("finished-again", ("raw", msg(FIN, bytes(32)).hex())), ("client-hello", ("raw", msg(CH, bytes(40)).hex())),
            ("cert-request-post-handshake", ("raw", msg(CR, vec(1, b"ctx") + build_exts([(X_SIGALGS, vec(2, u16(0x0804)))])).hex())),
            ("unknown-type", ("raw", msg(99, b"abc").hex())), ("msg-len-16M", ("raw", (u8(NST) + u24(0xFFFFFF) + bytes(10)).hex())),
            ("partial-header", ("raw", "0400")), ("eoed", ("raw", msg(EOED, b"").hex()))]
    return ops


def build_nst(life, nonce_len, ticket_len, exts):
    e = []
    for x in exts:
        if x == "early_max":
            e.append((X_EARLY, u32(0xFFFFFFFF)))
        elif x == "early_0":
            e.append((X_EARLY, u32(0)))
        elif x == "early_1":
            e.append((X_EARLY, u32(1)))
        elif x == "early_trunc":
            e.append((X_EARLY, b"\xff\xff"))
        elif x == "early_empty":
            e.append((X_EARLY, b""))
        elif x == "early_dup":
            e += [(X_EARLY, u32(0xFFFFFFFF)), (X_EARLY, u32(5))]
        elif x == "unknown_ext":
            e.append((0xFAFA, b"abc"))
        elif x == "big_ext":
            e.append((0xFAFA, bytes(9000)))
    return u32(life) + u32(0x01020304) + vec(1, bytes(nonce_len)) + vec(2, bytes(range(256)) * (ticket_len // 256) + bytes(ticket_len % 256)) + build_exts(e)


def apply_nst(op, rng):
    kind = op[0]
    if kind == "nst":
        return msg(NST, build_nst(op[1], op[2], op[3], op[4]))
    if kind == "raw":
        return bytes.fromhex(op[1])
    base = build_nst(3600, 8, 32, ["early_max"])
    if kind == "nst_noext":
        return msg(NST, base[: -(2 + 8)])
    if kind == "nst_trail":
        return msg(NST, base + b"\x00\x00")
    if kind == "nst_extlie":
        return msg(NST, base[:-10] + u16(50) + base[-8:])
    if kind == "nst_burst":
        return msg(NST, base) * op[1]
    raise ValueError(kind)


def cr_catalogue():
    return [("genuine-shape", ("cr", vec(2, u16(0x0804) + u16(0x0403)).hex(), 0)), ("no-sigalgs", ("cr", None, 0)), ("empty-sigalgs", ("cr", vec(2, b"").hex(), 0)),
            ("unknown-sigalgs", ("cr", vec(2, u16(0xFFFF)).hex(), 0)), ("ctx-255", ("cr", vec(2, u16(0x0804)).hex(), 255)), ("odd-sigalgs", ("cr", vec(2, b"\x08\x04\x08").hex(), 0)),
            ("body-empty", ("raw", msg(CR, b"").hex())), ("no-ext-block", ("raw", msg(CR, vec(1, b"")).hex()))]


def apply_cr(op, rng):
    if op[0] == "raw":
        return bytes.fromhex(op[1])
    exts = [] if op[1] is None else [(X_SIGALGS, bytes.fromhex(op[1]))]
    return msg(CR, vec(1, bytes(op[2])) + build_exts(exts))
