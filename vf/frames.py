"""Independent (RFC 9000 / RFC 9221) QUIC frame parser and builders.

Shares no code with aioquic. bytes/int only.
"""

from __future__ import annotations

VARINT_MAX = (1 << 62) - 1


class ParseError(Exception):
    pass


def enc_varint(v: int, size: int | None = None) -> bytes:
    if v < 0 or v > VARINT_MAX:
        raise ValueError("varint out of range: %r" % v)
    if size is None:
        size = 1 if v < 64 else 2 if v < 16384 else 4 if v < (1 << 30) else 8
    if size == 1:
        assert v < 64
        return bytes([v])
    if size == 2:
        assert v < 16384
        return (v | 0x4000).to_bytes(2, "big")
    if size == 4:
        assert v < (1 << 30)
        return (v | 0x80000000).to_bytes(4, "big")
    return (v | 0xC000000000000000).to_bytes(8, "big")


class Reader:
    def __init__(self, data: bytes, pos: int = 0):
        self.d = bytes(data)
        self.p = pos

    def eof(self) -> bool:
        return self.p >= len(self.d)

    def u8(self) -> int:
        if self.p + 1 > len(self.d):
            raise ParseError("truncated u8")
        v = self.d[self.p]
        self.p += 1
        return v

    def take(self, n: int) -> bytes:
        if n < 0 or self.p + n > len(self.d):
            raise ParseError("truncated bytes(%d)" % n)
        v = self.d[self.p : self.p + n]
        self.p += n
        return v

    def uint(self, n: int) -> int:
        return int.from_bytes(self.take(n), "big")

    def varint(self) -> int:
        first = self.u8()
        ln = 1 << (first >> 6)
        v = first & 0x3F
        for _ in range(ln - 1):
            v = (v << 8) | self.u8()
        return v


FRAME_NAMES = {
    0x00: "PADDING", 0x01: "PING", 0x02: "ACK", 0x03: "ACK_ECN", 0x04: "RESET_STREAM",
    0x05: "STOP_SENDING", 0x06: "CRYPTO", 0x07: "NEW_TOKEN", 0x10: "MAX_DATA",
    0x11: "MAX_STREAM_DATA", 0x12: "MAX_STREAMS_BIDI", 0x13: "MAX_STREAMS_UNI",
    0x14: "DATA_BLOCKED", 0x15: "STREAM_DATA_BLOCKED", 0x16: "STREAMS_BLOCKED_BIDI",
    0x17: "STREAMS_BLOCKED_UNI", 0x18: "NEW_CONNECTION_ID", 0x19: "RETIRE_CONNECTION_ID",
    0x1A: "PATH_CHALLENGE", 0x1B: "PATH_RESPONSE", 0x1C: "CONNECTION_CLOSE",
    0x1D: "CONNECTION_CLOSE_APP", 0x1E: "HANDSHAKE_DONE", 0x30: "DATAGRAM", 0x31: "DATAGRAM_LEN",
}
for _t in range(0x08, 0x10):
    FRAME_NAMES[_t] = "STREAM"

NON_ACK_ELICITING = {"PADDING", "ACK", "ACK_ECN", "CONNECTION_CLOSE", "CONNECTION_CLOSE_APP"}
# RFC 9002: packets containing only ACK frames are not in flight (PADDING does count)
NOT_IN_FLIGHT = {"ACK", "ACK_ECN", "CONNECTION_CLOSE", "CONNECTION_CLOSE_APP"}


def parse_frames(payload: bytes) -> list[dict]:
    """Parse a decrypted packet payload to the last byte. Raises ParseError."""
    r = Reader(payload)
    out = []
    if not payload:
        raise ParseError("empty payload")
    while not r.eof():
        start = r.p
        t = r.varint()
        name = FRAME_NAMES.get(t)
        if name is None:
            raise ParseError("unknown frame type 0x%x at %d" % (t, start))
        f = {"t": t, "name": name}
        if name == "PADDING":
            n = 1
            while not r.eof() and r.d[r.p] == 0:
                r.p += 1
                n += 1
            f["length"] = n
        elif name == "PING" or name == "HANDSHAKE_DONE":
            pass
        elif name in ("ACK", "ACK_ECN"):
            largest = r.varint()
            f["delay"] = r.varint()
            count = r.varint()
            first = r.varint()
            if first > largest:
                raise ParseError("ACK first range > largest")
            ranges = [(largest - first, largest)]
            smallest = largest - first
            for _ in range(count):
                gap = r.varint()
                ln = r.varint()
                hi = smallest - gap - 2
                if hi < 0 or ln > hi:
                    raise ParseError("ACK range underflow")
                smallest = hi - ln
                ranges.append((smallest, hi))
            f["largest"] = largest
            f["ranges"] = ranges  # inclusive (lo, hi), descending
            if name == "ACK_ECN":
                f["ecn"] = (r.varint(), r.varint(), r.varint())
        elif name == "RESET_STREAM":
            f["stream_id"], f["error_code"], f["final_size"] = r.varint(), r.varint(), r.varint()
        elif name == "STOP_SENDING":
            f["stream_id"], f["error_code"] = r.varint(), r.varint()
        elif name == "CRYPTO":
            f["offset"] = r.varint()
            ln = r.varint()
            f["data"] = r.take(ln)
            f["length"] = ln
        elif name == "NEW_TOKEN":
            f["token"] = r.take(r.varint())
        elif name == "STREAM":
            f["stream_id"] = r.varint()
            f["offset"] = r.varint() if t & 4 else 0
            if t & 2:
                ln = r.varint()
            else:
                ln = len(r.d) - r.p
            f["data"] = r.take(ln)
            f["length"] = ln
            f["fin"] = bool(t & 1)
        elif name == "MAX_DATA":
            f["maximum"] = r.varint()
        elif name == "MAX_STREAM_DATA":
            f["stream_id"], f["maximum"] = r.varint(), r.varint()
        elif name in ("MAX_STREAMS_BIDI", "MAX_STREAMS_UNI"):
            f["maximum"] = r.varint()
        elif name == "DATA_BLOCKED":
            f["limit"] = r.varint()
        elif name == "STREAM_DATA_BLOCKED":
            f["stream_id"], f["limit"] = r.varint(), r.varint()
        elif name in ("STREAMS_BLOCKED_BIDI", "STREAMS_BLOCKED_UNI"):
            f["limit"] = r.varint()
        elif name == "NEW_CONNECTION_ID":
            f["seq"], f["retire_prior_to"] = r.varint(), r.varint()
            ln = r.u8()
            if ln < 1 or ln > 20:
                raise ParseError("NEW_CONNECTION_ID length %d" % ln)
            f["cid"] = r.take(ln)
            f["token"] = r.take(16)
        elif name == "RETIRE_CONNECTION_ID":
            f["seq"] = r.varint()
        elif name in ("PATH_CHALLENGE", "PATH_RESPONSE"):
            f["data"] = r.take(8)
        elif name == "CONNECTION_CLOSE":
            f["error_code"], f["frame_type"] = r.varint(), r.varint()
            f["reason"] = r.take(r.varint())
        elif name == "CONNECTION_CLOSE_APP":
            f["error_code"] = r.varint()
            f["reason"] = r.take(r.varint())
        elif name == "DATAGRAM":
            f["data"] = r.take(len(r.d) - r.p)
        elif name == "DATAGRAM_LEN":
            f["data"] = r.take(r.varint())
        f["wire_len"] = r.p - start
        out.append(f)
    return out


def acked_numbers(ack_frame: dict):
    for lo, hi in ack_frame["ranges"]:
        yield from range(lo, hi + 1)


def is_ack_eliciting(frames: list[dict]) -> bool:
    return any(f["name"] not in NON_ACK_ELICITING for f in frames)


def is_in_flight(frames: list[dict]) -> bool:
    return any(f["name"] not in NOT_IN_FLIGHT for f in frames)


# ------------------------------------------------------------------ builders


def f_padding(n=1):
    return bytes(n)


def f_ping():
    return b"\x01"


def f_ack(ranges, delay=0, ecn=None):
    """ranges: list of inclusive (lo, hi); any order, must be disjoint & non-adjacent."""
    rs = sorted(ranges, reverse=True)
    out = enc_varint(0x03 if ecn else 0x02) + enc_varint(rs[0][1]) + enc_varint(delay)
    out += enc_varint(len(rs) - 1) + enc_varint(rs[0][1] - rs[0][0])
    prev_lo = rs[0][0]
    for lo, hi in rs[1:]:
        out += enc_varint(prev_lo - hi - 2) + enc_varint(hi - lo)
        prev_lo = lo
    if ecn:
        out += b"".join(enc_varint(x) for x in ecn)
    return out


def f_reset_stream(stream_id, error_code, final_size):
    return b"\x04" + enc_varint(stream_id) + enc_varint(error_code) + enc_varint(final_size)


def f_stop_sending(stream_id, error_code):
    return b"\x05" + enc_varint(stream_id) + enc_varint(error_code)


def f_crypto(offset, data):
    return b"\x06" + enc_varint(offset) + enc_varint(len(data)) + data


def f_new_token(token):
    return b"\x07" + enc_varint(len(token)) + token


def f_stream(stream_id, offset, data, fin=False, explicit_len=True, explicit_off=None):
    t = 0x08 | (1 if fin else 0)
    if explicit_off is None:
        explicit_off = offset != 0
    if explicit_off:
        t |= 4
    if explicit_len:
        t |= 2
    out = bytes([t]) + enc_varint(stream_id)
    if explicit_off:
        out += enc_varint(offset)
    if explicit_len:
        out += enc_varint(len(data))
    return out + data


def f_max_data(v):
    return b"\x10" + enc_varint(v)


def f_max_stream_data(stream_id, v):
    return b"\x11" + enc_varint(stream_id) + enc_varint(v)


def f_max_streams(v, uni=False):
    return (b"\x13" if uni else b"\x12") + enc_varint(v)


def f_data_blocked(v):
    return b"\x14" + enc_varint(v)


def f_stream_data_blocked(stream_id, v):
    return b"\x15" + enc_varint(stream_id) + enc_varint(v)


def f_streams_blocked(v, uni=False):
    return (b"\x17" if uni else b"\x16") + enc_varint(v)


def f_new_connection_id(seq, retire_prior_to, cid, token=b"\x00" * 16):
    return b"\x18" + enc_varint(seq) + enc_varint(retire_prior_to) + bytes([len(cid)]) + cid + token


def f_retire_connection_id(seq):
    return b"\x19" + enc_varint(seq)


def f_path_challenge(data):
    return b"\x1a" + data


def f_path_response(data):
    return b"\x1b" + data


def f_connection_close(error_code, frame_type=0, reason=b"", app=False):
    if app:
        return b"\x1d" + enc_varint(error_code) + enc_varint(len(reason)) + reason
    return b"\x1c" + enc_varint(error_code) + enc_varint(frame_type) + enc_varint(len(reason)) + reason


def f_handshake_done():
    return b"\x1e"


def f_datagram(data, with_len=True):
    if with_len:
        return b"\x31" + enc_varint(len(data)) + data
    return b"\x30" + data
