"""E6: virtual-time asyncio loop + in-memory datagram network (C19).

`VLoop` is a real `asyncio.SelectorEventLoop`: ready queue, timer heap, Handle/TimerHandle,
tasks and futures are the stock implementation.  Only three things differ:

* `time()` is a virtual clock.  The selector never blocks: `select(timeout)` with nothing
  ready advances the virtual clock by `timeout` and returns []; every loop iteration
  additionally costs 50 virtual microseconds (a real clock never stands still).  (`select(None)` = the loop
  has neither ready handles nor timers = nothing can ever happen again: `LoopStalled`.)
* `getaddrinfo` / `create_datagram_endpoint` hand out `VDatagramTransport`s wired to a `VNet`
  (same call protocol as the selector transport: `connection_made` through call_soon, then
  the endpoint coroutine returns; `datagram_received(data, addr)` from a loop callback;
  `connection_lost(None)` through call_soon after close()).
* Timer callbacks of protocols (bound methods named `_handle_timer`) get a seeded
  LATENESS >= 0 (never earliness).  call_soon FIFO order is untouched.

The unmodified `aioquic.asyncio.connect()/serve()/QuicServer/QuicConnectionProtocol` run on it.
A wall-clock watchdog and an iteration cap raise `Watchdog` (=> inconclusive), never a verdict.

No aioquic import here.
"""

from __future__ import annotations

import asyncio
import functools
import random
import selectors
import socket
import time as _walltime


class Watchdog(Exception):
    """wall-clock or iteration cap exceeded (inconclusive)."""


class LoopStalled(Exception):
    """the loop has no ready handle and no timer but run_until_complete's future is not done."""


class _VSelector(selectors._BaseSelectorImpl):
    def __init__(self, owner):
        super().__init__()
        self._owner = owner

    def select(self, timeout=None):
        lp = self._owner
        lp.iterations += 1
        if lp.iterations & 0x3F == 0:
            if _walltime.monotonic() > lp.wall_deadline:
                raise Watchdog("wall clock")
        if lp.iterations > lp.iteration_cap:
            raise Watchdog("iteration cap")
        if timeout is None:
            raise LoopStalled("no ready handles and no timers at t=%.6f" % lp._vtime)
        # a real clock never stands still: every loop iteration costs a little time.  (Without this a
        # timer that re-arms itself for the very instant it fired at would spin forever on a frozen clock.)
        lp._vtime += lp.tick
        if timeout > 0:
            t = lp._vtime + timeout
            if lp._scheduled:
                w = lp._scheduled[0]._when
                if abs(w - t) < 1e-9:
                    t = max(t, w)
            lp._vtime = t
            lp.clock_jumps += 1
        return []


class VLoop(asyncio.SelectorEventLoop):
    def __init__(self, seed=0, max_lateness=0.0, wall_limit=60.0, iteration_cap=3_000_000):
        self._vtime = 0.0
        self.iterations = 0
        self.tick = 5e-5  # virtual seconds consumed by one loop iteration (a Python callback round costs 20-500 us)
        self.clock_jumps = 0
        self.iteration_cap = iteration_cap
        self.wall_deadline = _walltime.monotonic() + wall_limit
        super().__init__(selector=_VSelector(self))
        self._clock_resolution = 1e-9
        self.net = None  # set by VNet
        self._late_rng = random.Random("late/%s" % seed)
        self.max_lateness = max_lateness
        self.timers_armed = 0
        self.timers_late = 0
        self.timers_armed_in_past = 0  # protocol timers armed for a deadline more than 1 ms in the past (busy-spin symptom)
        self.trace_hook = None  # callable(kind, owner) just before a traced callback runs
        self.timer_of = {}  # id(owner) -> latest TimerHandle armed for owner._handle_timer
        self._endpoint_count = 0

    # ------------------------------------------------------------------ clock
    def time(self):
        return self._vtime

    def extend_wall(self, seconds):
        self.wall_deadline = _walltime.monotonic() + seconds

    # ------------------------------------------------------------------ scheduling
    def _traced(self, kind, owner, callback, *args):
        hook = self.trace_hook
        if hook is not None:
            hook(kind, owner)
        return callback(*args)

    def call_at(self, when, callback, *args, context=None):
        owner = getattr(callback, "__self__", None)
        if owner is not None and getattr(callback, "__name__", "") == "_handle_timer" and isinstance(owner, asyncio.BaseProtocol):
            self.timers_armed += 1
            if when < self._vtime - 1e-3:
                self.timers_armed_in_past += 1
            if self.max_lateness > 0.0:
                r = self._late_rng.random()
                # half of the timers are punctual, the others up to max_lateness late
                late = 0.0 if r < 0.5 else (r - 0.5) * 2.0 * self.max_lateness
                if late:
                    self.timers_late += 1
                when = when + late
            h = super().call_at(when, functools.partial(self._traced, "T", owner, callback), *args, context=context)
            self.timer_of[id(owner)] = h
            return h
        return super().call_at(when, callback, *args, context=context)

    def call_soon(self, callback, *args, context=None):
        owner = getattr(callback, "__self__", None)
        if owner is not None and getattr(callback, "__name__", "") == "transmit" and isinstance(owner, asyncio.BaseProtocol):
            return super().call_soon(functools.partial(self._traced, "S", owner, callback), *args, context=context)
        return super().call_soon(callback, *args, context=context)

    def has_live_timer(self, owner):
        h = self.timer_of.get(id(owner))
        return h is not None and not h.cancelled() and bool(getattr(h, "_scheduled", False))

    # ------------------------------------------------------------------ name resolution / endpoints
    async def getaddrinfo(self, host, port, *, family=0, type=0, proto=0, flags=0):
        if self.net is None:
            raise OSError("VLoop without VNet")
        ip = self.net.resolve(host)
        return [(socket.AF_INET6, socket.SOCK_DGRAM, 17, "", (ip, port, 0, 0))]

    async def create_datagram_endpoint(self, protocol_factory, local_addr=None, remote_addr=None, *, family=0, proto=0,
                                       flags=0, reuse_port=None, allow_broadcast=None, sock=None):
        if self.net is None:
            raise OSError("VLoop without VNet")
        if remote_addr is not None:
            raise NotImplementedError("connected datagram endpoints are not modelled")
        if sock is not None:
            # aioquic's connect() binds a real UDP socket and hands it over; the virtual network
            # replaces it, so release the OS resource immediately.
            sock.close()
            addr = self.net.next_client_addr()
        elif local_addr is not None:
            addr = (self.net.resolve(local_addr[0]), local_addr[1], 0, 0)
        else:
            addr = self.net.next_client_addr()
        protocol = protocol_factory()
        waiter = self.create_future()
        transport = VDatagramTransport(self, self.net, protocol, addr, waiter)
        self.net.bind(transport)
        self._endpoint_count += 1
        try:
            await waiter
        except BaseException:
            transport.close()
            raise
        return transport, protocol


class VDatagramTransport(asyncio.DatagramTransport):
    def __init__(self, loop, net, protocol, addr, waiter=None):
        super().__init__()
        self._loop = loop
        self._net = net
        self._protocol = protocol
        self.addr = addr
        self._closing = False
        self._conn_lost = False
        self.sent = 0
        self.sent_after_close = 0
        self.name = None  # set by VNet.bind
        loop.call_soon(protocol.connection_made, self)
        if waiter is not None:
            loop.call_soon(_set_result_unless_cancelled, waiter, None)

    def get_extra_info(self, name, default=None):
        if name == "sockname":
            return self.addr
        if name == "peername":
            return None
        return default

    def is_closing(self):
        return self._closing

    def get_protocol(self):
        return self._protocol

    def set_protocol(self, protocol):
        self._protocol = protocol

    def sendto(self, data, addr=None):
        if not isinstance(data, (bytes, bytearray, memoryview)):
            raise TypeError("data argument must be a bytes-like object, not %r" % type(data).__name__)
        if not data:
            return
        if self._closing:
            self.sent_after_close += 1
            self._net.on_send_after_close(self, bytes(data), addr)
            return
        self.sent += 1
        self._net.send(self, bytes(data), addr)

    def close(self):
        if self._closing:
            return
        self._closing = True
        self._net.unbind(self)
        self._loop.call_soon(self._call_connection_lost, None)

    def abort(self):
        self.close()

    def _call_connection_lost(self, exc):
        if not self._conn_lost:
            self._conn_lost = True
            self._protocol.connection_lost(exc)


def _set_result_unless_cancelled(fut, result):
    if not fut.cancelled():
        fut.set_result(result)


class Delivery:
    __slots__ = ("src_name", "index", "copy", "data", "src_addr", "dst_addr", "t_out", "tag")

    def __init__(self, src_name, index, copy, data, src_addr, dst_addr, t_out, tag):
        self.src_name, self.index, self.copy, self.data = src_name, index, copy, data
        self.src_addr, self.dst_addr, self.t_out, self.tag = src_addr, dst_addr, t_out, tag


class VNet:
    """In-memory datagram network with content-independent, seeded per-datagram fates.

    fate of datagram number `index` sent by endpoint `name` depends only on (seed, name, index)
    and on the (virtual) time window it is sent in.
    params: base (s), loss, dup, reorder, jitter (s), adv_until (virtual s after which the network
            is fair: every datagram delivered once, in order, after `base`),
            blackouts {endpoint name: [[lo, hi], ...]}  (datagrams from or to that endpoint sent
            within a window vanish)
    """

    def __init__(self, loop: VLoop, seed, params: dict):
        self.loop = loop
        loop.net = self
        self.seed = seed
        self.p = params
        self.by_addr = {}  # (ip, port) -> transport
        self.names = {}  # (ip, port) -> endpoint name (kept after unbind)
        self.out_index = {}  # name -> datagrams sent so far
        self.counts = {"sent": 0, "delivered": 0, "dropped": 0, "duplicated": 0, "delayed": 0, "blackout": 0,
                       "to_closed_endpoint": 0, "injected": 0, "sent_after_close": 0}
        self.hosts = {}
        self._clients = 0
        self.in_flight = 0
        self.current = None  # Delivery being handed to a protocol right now
        # hooks (all optional): on_send(name, data, dst_addr), before_deliver(d, transport), after_deliver(d, transport, exc)
        self.on_send = None
        self.before_deliver = None
        self.after_deliver = None
        self.order_seq = 0

    # -------------------------------------------------------------- addressing
    def resolve(self, host):
        if host not in self.hosts:
            self.hosts[host] = "fd00::%x" % (0x100 + len(self.hosts))
        return self.hosts[host]

    def next_client_addr(self):
        self._clients += 1
        return ("fd00::c%x" % self._clients, 40000 + self._clients, 0, 0)

    def name_of(self, addr):
        return self.names.get((addr[0], addr[1]))

    def bind(self, transport):
        key = (transport.addr[0], transport.addr[1])
        if key in self.by_addr:
            raise OSError(98, "address already in use: %r" % (key,))
        self.by_addr[key] = transport
        if key not in self.names:
            n = sum(1 for v in self.names.values() if v.startswith("e"))
            self.names[key] = "e%d" % n
        transport.name = self.names[key]

    def set_name(self, transport, name):
        key = (transport.addr[0], transport.addr[1])
        self.names[key] = name
        transport.name = name

    def unbind(self, transport):
        key = (transport.addr[0], transport.addr[1])
        if self.by_addr.get(key) is transport:
            del self.by_addr[key]

    # -------------------------------------------------------------- fates
    def adversarial(self, t):
        return t < self.p.get("adv_until", 0.0)

    def _blackout(self, name, t):
        for lo, hi in self.p.get("blackouts", {}).get(name, ()):
            if lo <= t < hi:
                return True
        return False

    def fate(self, name, index, t, dst_name):
        """-> list of delays (one per delivered copy)."""
        p = self.p
        base = p.get("base", 0.01)
        if self._blackout(name, t) or (dst_name is not None and self._blackout(dst_name, t)):
            self.counts["blackout"] += 1
            return []
        if not self.adversarial(t):
            return [base]
        rng = random.Random("fate/%s/%s/%d" % (self.seed, name, index))
        r = rng.random()
        loss, dup = p.get("loss", 0.0), p.get("dup", 0.0)
        if r < loss:
            self.counts["dropped"] += 1
            return []
        jitter = p.get("jitter", 0.0)

        def d():
            if jitter and rng.random() < p.get("reorder", 0.0):
                self.counts["delayed"] += 1
                return base + rng.random() * jitter
            return base

        if r < loss + dup:
            self.counts["duplicated"] += 1
            k = rng.choice([2, 2, 2, 3])
            return [d() + i * 1e-4 for i in range(k)]
        return [d()]

    # -------------------------------------------------------------- data path
    def send(self, transport, data, addr):
        name = transport.name
        idx = self.out_index.get(name, 0)
        self.out_index[name] = idx + 1
        self.counts["sent"] += 1
        now = self.loop.time()
        if self.on_send is not None:
            self.on_send(name, data, addr)
        if addr is None:
            return
        dst_name = self.names.get((addr[0], addr[1]))
        for copy, delay in enumerate(self.fate(name, idx, now, dst_name)):
            d = Delivery(name, idx, copy, data, transport.addr, addr, now, None)
            self.in_flight += 1
            self.loop.call_at(now + delay, self._deliver, d)

    def on_send_after_close(self, transport, data, addr):
        self.counts["sent_after_close"] += 1

    def inject(self, src_addr, dst_addr, data, delay, tag):
        """Harness-made datagram (not subject to fates)."""
        now = self.loop.time()
        self.counts["injected"] += 1
        d = Delivery("inject", self.counts["injected"], 0, data, src_addr, dst_addr, now, tag)
        self.in_flight += 1
        self.loop.call_at(now + delay, self._deliver, d)

    def _deliver(self, d):
        self.in_flight -= 1
        tr = self.by_addr.get((d.dst_addr[0], d.dst_addr[1]))
        if tr is None or tr._closing:
            self.counts["to_closed_endpoint"] += 1
            return
        self.counts["delivered"] += 1
        if self.before_deliver is not None:
            self.before_deliver(d, tr)
        self.current = d
        exc = None
        try:
            tr._protocol.datagram_received(d.data, d.src_addr)
        except (SystemExit, KeyboardInterrupt):
            raise
        except BaseException as e:  # reported below, then re-raised into Handle._run -> loop exception handler
            exc = e
        finally:
            self.current = None
        if self.after_deliver is not None:
            self.after_deliver(d, tr, exc)
        if exc is not None:
            raise exc
