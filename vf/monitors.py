"""E4: oracles subscribing to simnet / tap streams. Each raises vf.common.Violation."""

from __future__ import annotations

import math

from .common import Violation, prf_bytes
from .frames import acked_numbers
from .simnet import Monitor

TRANSPORT_ERRORS = {
    0x0: "NO_ERROR", 0x1: "INTERNAL_ERROR", 0x2: "CONNECTION_REFUSED", 0x3: "FLOW_CONTROL_ERROR",
    0x4: "STREAM_LIMIT_ERROR", 0x5: "STREAM_STATE_ERROR", 0x6: "FINAL_SIZE_ERROR", 0x7: "FRAME_ENCODING_ERROR",
    0x8: "TRANSPORT_PARAMETER_ERROR", 0x9: "CONNECTION_ID_LIMIT_ERROR", 0xA: "PROTOCOL_VIOLATION",
    0xB: "INVALID_TOKEN", 0xC: "APPLICATION_ERROR", 0xD: "CRYPTO_BUFFER_EXCEEDED", 0xE: "KEY_UPDATE_ERROR",
    0xF: "AEAD_LIMIT_REACHED", 0x11: "VERSION_NEGOTIATION_ERROR",
}


def err_name(code):
    if code is None:
        return "None"
    if 0x100 <= code <= 0x1FF:
        return "CRYPTO_ERROR_%d" % (code - 0x100)
    return TRANSPORT_ERRORS.get(code, hex(code))


# ------------------------------------------------------------------ C01


class DeliveryModel(Monitor):
    """Prefix / exactly-once / end-of-stream oracle over StreamDataReceived events.
    The model is 'the bytes that were written' (self-identifying PRF bytes)."""

    name = "delivery"

    def __init__(self, forbid_termination=True, completion=True):
        super().__init__()
        self.completion = completion  # False: run to the horizon, do not demand delivery of everything
        self.delivered = {}  # (receiver side, sid) -> count
        self.ended = set()
        self.reset_seen = set()
        self.forbid_termination = forbid_termination
        self.bytes_checked = 0
        self.end_events = 0
        self.reset_events = 0
        self.data_after_reset = 0
        self.duplicate_resets = 0

    def on_event(self, ep, ev, t):
        sim = self.sim
        name = type(ev).__name__
        recv = ep.name
        send = "server" if recv == "client" else "client"
        if name == "StreamDataReceived":
            self.evaluations += 1
            key = (recv, ev.stream_id)
            skey = (send, ev.stream_id)
            d = self.delivered.get(key, 0)
            written = sim.written.get(skey, 0)
            n = len(ev.data)
            if key in self.ended:
                if n:
                    raise Violation("delivery:data-after-end-of-stream", "%s stream %d: %d bytes after end_stream" % (recv, ev.stream_id, n), self._w(ev, d, written))
                if ev.end_stream:
                    raise Violation("delivery:duplicate-end-of-stream", "%s stream %d: end_stream signalled twice" % (recv, ev.stream_id), self._w(ev, d, written))
            if key in self.reset_seen and n:
                self.data_after_reset += 1
            if d + n > written:
                raise Violation("delivery:bytes-never-written", "%s stream %d: delivered %d+%d > written %d" % (recv, ev.stream_id, d, n, written), self._w(ev, d, written))
            exp = prf_bytes("%s/%s/%d" % (sim.seed, send, ev.stream_id), n, d)
            if exp != ev.data:
                kind = "wrong-bytes"
                # classify: repeat (bytes from an earlier offset) or gap (later offset)?
                probe = ev.data[:16]
                if len(probe) >= 8:
                    whole = prf_bytes("%s/%s/%d" % (sim.seed, send, ev.stream_id), written, 0)
                    at = whole.find(probe)
                    if at >= 0:
                        kind = "repeat" if at < d else "gap"
                    else:
                        for (s2, sid2), w2 in sim.written.items():
                            if prf_bytes("%s/%s/%d" % (sim.seed, s2, sid2), w2, 0).find(probe) >= 0:
                                kind = "foreign-stream-bytes"
                                break
                raise Violation("delivery:" + kind, "%s stream %d at offset %d: delivered bytes are not the written bytes" % (recv, ev.stream_id, d), self._w(ev, d, written))
            self.bytes_checked += n
            self.delivered[key] = d + n
            if ev.end_stream:
                self.end_events += 1
                if skey not in sim.fin_written or d + n != written:
                    raise Violation("delivery:premature-end-of-stream", "%s stream %d: end_stream at %d, written %d, fin_written=%s" % (recv, ev.stream_id, d + n, written, skey in sim.fin_written), self._w(ev, d, written))
                self.ended.add(key)
        elif name == "StreamReset":
            self.evaluations += 1
            self.reset_events += 1
            key = (recv, ev.stream_id)
            skey = (send, ev.stream_id)
            if key in self.reset_seen:
                # the property bounds end-of-stream signals, not reset notifications: observation only
                self.duplicate_resets += 1
            if skey not in sim.reset_by_sender and key not in sim.stop_requested:
                raise Violation("delivery:spurious-reset", "%s stream %d: StreamReset but sender never reset and receiver never asked to stop" % (recv, ev.stream_id), None)
            self.reset_seen.add(key)
        elif name == "ConnectionTerminated" and self.forbid_termination:
            raise Violation(
                "closed:%s" % err_name(ev.error_code),
                "%s terminated (code %s, frame %r, reason %r) although nobody closed and the network only dropped/duplicated/reordered" % (recv, err_name(ev.error_code), ev.frame_type, ev.reason_phrase),
                {"t": t},
            )

    def _w(self, ev, d, written):
        return {"stream": ev.stream_id, "delivered_before": d, "written": written, "len": len(ev.data), "end_stream": ev.end_stream, "head": ev.data[:24].hex()}

    def _obligations(self):
        sim = self.sim
        for (side, sid), w in sim.written.items():
            recv = "server" if side == "client" else "client"
            if (side, sid) in sim.reset_by_sender or (recv, sid) in sim.stop_requested:
                continue
            yield side, sid, recv, w

    def complete(self):
        sim = self.sim
        if not self.completion:
            return False
        for side, sid, recv, w in self._obligations():
            if self.delivered.get((recv, sid), 0) != w:
                return False
            if (side, sid) in sim.fin_written and (recv, sid) not in self.ended:
                return False
        for k, n in sim.pings.items():
            if n < 1:
                return False
        return True

    def at_end(self, sim):
        # bounded completion is only demanded when the run ended in the fair phase
        if sim.stopped_reason == "step-cap" or not self.completion:
            return
        if sim.server is None and getattr(sim, "frontend", {}).get("token_bad"):
            # the server front-end (harness) bound its Retry token to the client's address and the client was rebound
            # before its token-bearing Initial arrived: the token is refused for ever and no connection exists on the
            # server side (RFC 9000 8.1.2 lets the server do that); nothing of the delivery guarantee applies
            self.exempt_no_connection = True
            return
        for side, sid, recv, w in self._obligations():
            self.evaluations += 1
            d = self.delivered.get((recv, sid), 0)
            if d != w:
                self._stall("bytes-not-delivered", "%s->%s stream %d: %d of %d bytes delivered by the end of the fair phase (t=%.1f, stop=%s)" % (side, recv, sid, d, w, sim.now, sim.stopped_reason))
            if (side, sid) in sim.fin_written and (recv, sid) not in self.ended:
                self._stall("end-of-stream-not-delivered", "%s->%s stream %d: FIN written, all %d bytes delivered, no end_stream by the end of the fair phase" % (side, recv, sid, w))
        for (side, uid), n in sim.pings.items():
            self.evaluations += 1
            if n == 0:
                self._stall("ping-not-acknowledged", "%s ping %d never acknowledged" % (side, uid))
            if n > 1:
                raise Violation("completion:ping-acknowledged-twice", "%s ping %d acknowledged %d times" % (side, uid, n), None)

    def _stall(self, what, text):
        """Bounded progress failed. Diagnose the mechanism from hooked state so that distinct
        defects get distinct signatures (a known finding must not mask another stall)."""
        mech = diagnose_stall(self.sim)
        if mech:
            raise Violation("stall:" + mech, text + " [diagnosis: %s]" % mech, self._diag())
        raise Violation("completion:" + what, text, self._diag())

    def _diag(self):
        sim = self.sim
        return {
            "now": sim.now,
            "stopped": sim.stopped_reason,
            "fates": dict(sim.fates.counts),
            "client_out": sim.client.out_count,
            "server_out": sim.server.out_count if sim.server else 0,
            "tail": [v.brief() for v in (sim.tap.packets[-12:] if sim.tap else [])],
        }


# ------------------------------------------------------------------ C02(b)


class PeerOpensMonitor(Monitor):
    """'Every protected packet an endpoint emits is recovered by its peer': a genuine, unaltered packet handed to the
    endpoint that holds the keys of its level must be opened by that endpoint's packet protection.

    Whether it was opened is observed at CryptoPair.decrypt_packet (the class-level watch of AckMonitor).  Which
    packets the receiver *must* be able to open is decided conservatively: 0-RTT packets delivered to a server while
    its 0-RTT receive keys are installed (hooked state of the crypto layer: the TLS engine accepted early data) and it
    has not completed the handshake.  Duplicates of an opened packet owe nothing; 1-RTT packets that were not opened are
    only counted (retired connection IDs and key updates drop genuine packets legitimately)."""

    name = "peer-opens"

    def __init__(self):
        super().__init__()
        self.checked = {}
        self.seen = set()
        self.key_updates = False
        self.last_index = {}
        self.restart_index = 0
        self.exempt_sent_before_restart = 0

    def on_app(self, ep, op, t, outcome):
        if op.get("op") == "key_update":
            self.key_updates = True

    def on_datagram_out(self, ep, rec, t):
        self.last_index[ep.name] = rec.index

    def on_deliver(self, ep, rec, from_addr, t, altered=False):
        AckMonitor._install_open_watch()
        del _OPENED[:]

    def after_deliver(self, ep, rec, from_addr, t, altered=False):
        if altered or ep.terminated:
            return
        from aioquic import tls

        opened = AckMonitor._opened_by(ep)
        if ep.name == "client" and (rec.sender == "frontend" or any(v.ptype in ("retry", "vn") for v in rec.views or [])):
            # a client that starts over after a Retry / Version Negotiation packet makes a new ClientHello: what it sent
            # before was protected with the early secret of the abandoned one, which no server connection ever holds
            self.restart_index = self.last_index.get("client", -1) + 1
        for v in rec.views or []:
            if v.error or v.pn is None or v.ptype not in ("0rtt", "1rtt"):
                continue
            if v.ptype == "0rtt" and rec.index < self.restart_index:
                self.exempt_sent_before_restart += 1
                continue
            key = (ep.name, v.ptype, v.pn)
            if key in self.seen:
                continue
            must = False
            if v.ptype == "0rtt" and ep.name == "server" and not ep.handshake_complete:
                pair = getattr(ep.conn, "_cryptos", {}).get(tls.Epoch.ZERO_RTT)
                must = pair is not None and pair.recv.is_valid()
            elif v.ptype == "1rtt" and ep.handshake_complete and not self.key_updates and ("A", v.pn) not in opened:
                # (1-RTT packets are only counted in general: one addressed to a connection ID the receiver has meanwhile
                # retired at the sender's own request, or overtaken by a key update, is dropped legitimately)
                self.obs_1rtt_not_opened = getattr(self, "obs_1rtt_not_opened", 0) + 1
                # ... except a 1-RTT packet that travels in one datagram *behind* a long-header packet (a Handshake or
                # Initial retransmission whose keys the receiver may have discarded): whatever becomes of the first
                # packet, the rest of the datagram is processed (RFC 9000 12.2) — if the receiver holds the 1-RTT keys
                # and still routes the connection ID (hooked state, used only to leave the legitimate drops out)
                idx = (rec.views or []).index(v)
                behind_long = any(w.ptype in ("initial", "handshake") for w in (rec.views or [])[:idx])
                routed = any(bytes(c.cid) == bytes(v.dcid) for c in getattr(ep.conn, "_host_cids", []))
                closing = ep.conn._state.name != "CONNECTED" or ep.conn._close_pending
                if behind_long and routed and not closing and ep.name == "server":
                    must = True
            if not must:
                continue
            self.evaluations += 1
            self.checked[v.ptype] = self.checked.get(v.ptype, 0) + 1
            if ("A", v.pn) in opened:
                self.seen.add(key)
            else:
                raise Violation("peer:cannot-open-genuine-packet:%s" % (v.ptype if v.ptype != "1rtt" else "1rtt-behind-long-header-packet"),
                                "%s holds the %s receive keys but its packet protection did not open the genuine %s packet %d (version on the wire 0x%x) delivered at t=%.4f"
                                % (ep.name, v.ptype, v.ptype, v.pn, getattr(v, "version", 0) or 0, t), {"t": t, "view": v.brief()})


class TapMonitor(Monitor):
    """Every packet an endpoint emits must be opened by the independent RFC 9001/9369 reader and
    parse as well-formed frames to the last byte."""

    name = "tap"

    def __init__(self):
        super().__init__()
        self.packets_tapped = 0
        self.by_type = {}
        self.key_phases = set()
        self.suites = set()

    def on_datagram_out(self, ep, rec, t):
        for v in rec.views or []:
            if v.ptype == "padding":
                continue
            self.evaluations += 1
            self.packets_tapped += 1
            self.by_type[v.ptype] = self.by_type.get(v.ptype, 0) + 1
            if v.key_phase is not None:
                self.key_phases.add((ep.name, self.sim.tap.key_generation(ep.name)))
            if v.suite:
                self.suites.add(v.suite)
            if v.error is not None:
                kind = v.error.split("(")[0].strip().split(":")[0].replace(" ", "-")
                raise Violation(
                    "tap:%s:%s" % (v.ptype, kind),
                    "independent reader could not accept a %s packet emitted by %s: %s" % (v.ptype, ep.name, v.error),
                    {"datagram_index": rec.index, "len": len(rec.data), "head": rec.data[:48].hex(), "version": v.version, "key_generation": self.sim.tap.key_generation(ep.name)},
                )


# ------------------------------------------------------------------ C09(1) + C08(b) ledgers


class TimerMonitor(Monitor):
    """From connect()/first datagram until ConnectionTerminated was returned, get_timer() must be a
    finite float after every API cycle."""

    name = "timer"

    def on_step(self, ep, t, cause):
        if ep.terminated or not ep.started:
            return
        self.evaluations += 1
        v = ep.timer_at
        if v is None or not isinstance(v, (int, float)) or math.isnan(v) or math.isinf(v):
            raise Violation("timer:not-finite:%s" % ("None" if v is None else "nan-or-inf"), "%s.get_timer() returned %r after %s at t=%.4f while the connection is live" % (ep.name, v, cause, t), {"history_tail": self.sim.history[-12:]})
        if self.sim.zeno:
            # a caller that fires the timer exactly when asked can never get past this instant: the connection
            # "waits forever" in virtual time and can never reach its idle / closing deadline
            name, src, deadline, now = self.sim.zeno[0]
            del self.sim.zeno[:]
            self.zeno_seen = getattr(self, "zeno_seen", 0) + 1
            raise Violation("timer:expired-deadline-rearmed-without-progress:" + src,
                            "%s: handle_timer(now=%.6f) was called at the requested deadline %.6f (%s); the connection sent nothing, reported no event and asked for the same "
                            "deadline again, twice in a row at the same instant: a caller firing timers exactly on time never advances" % (name, now, deadline, src),
                            {"history_tail": self.sim.history[-14:]})


class RecoveryLedger(Monitor):
    """C08(b): bytes_in_flight equals the sum of tracked in-flight packets, never negative; cwnd floor."""

    name = "recovery-ledger"

    def on_step(self, ep, t, cause):
        loss = ep.conn._loss
        self.evaluations += 1
        tracked = 0
        for space in loss.spaces:
            n_ae = 0
            for p in space.sent_packets.values():
                if p.in_flight:
                    tracked += p.sent_bytes
                if p.is_ack_eliciting:
                    n_ae += 1
            if space.ack_eliciting_in_flight != n_ae:
                raise Violation("ledger:ack-eliciting-count-mismatch", "%s: ack_eliciting_in_flight=%d but %d tracked ack-eliciting packets (after %s)" % (ep.name, space.ack_eliciting_in_flight, n_ae, cause), None)
        bif = loss.bytes_in_flight
        if bif < 0:
            raise Violation("ledger:bytes-in-flight-negative", "%s: bytes_in_flight=%d after %s" % (ep.name, bif, cause), None)
        if bif != tracked:
            raise Violation("ledger:bytes-in-flight-mismatch", "%s: bytes_in_flight=%d, tracked in-flight packets sum to %d (after %s)" % (ep.name, bif, tracked, cause), None)
        if loss.congestion_window < 2 * ep.conn._max_datagram_size:
            raise Violation("ledger:cwnd-below-minimum", "%s: cwnd=%d < 2*%d" % (ep.name, loss.congestion_window, ep.conn._max_datagram_size), None)


def diagnose_stall(sim):
    """Mechanism of a failed bounded-progress obligation, read from hooked state (or None).

    key-phase-desync:<side>-ahead-by-<n>: the 1-RTT send secret of one endpoint is n key
    updates ahead of the receive secret of its peer, i.e. the peer cannot open its packets
    (and, since aioquic drops the previous receive keys at once, it cannot open the peer's).
    """
    from . import refcrypto as rc

    try:
        from aioquic import tls

        c, s = sim.client.conn, sim.server.conn
        pairs = (("client", c._cryptos[tls.Epoch.ONE_RTT].send, s._cryptos[tls.Epoch.ONE_RTT].recv),
                 ("server", s._cryptos[tls.Epoch.ONE_RTT].send, c._cryptos[tls.Epoch.ONE_RTT].recv))
    except Exception:
        return None
    # a sender whose current path never got validated stays limited to 3x what it receives
    for ep in (sim.server, sim.client):
        try:
            path = ep.conn._network_paths[0]
            if not path.is_validated and ep.handshake_complete:
                return "path-never-validated:%s:challenge-%s" % (ep.name, "sent" if path.local_challenge_sent else "not-sent")
        except Exception:
            pass
    for side, snd, rcv in pairs:
        if not snd.secret or not rcv.secret or snd.secret == rcv.secret:
            continue
        hash_name = "sha384" if len(rcv.secret) == 48 else "sha256"
        for who, a, b in ((side, rcv.secret, snd.secret), ("peer-of-" + side, snd.secret, rcv.secret)):
            cur = a
            for n in range(1, 5):
                cur = rc.hkdf_expand_label(hash_name, cur, rc.label(int(snd.version), "ku"), b"", len(cur))
                if cur == b:
                    return "key-phase-desync:%s-ahead-by-%d" % ("updater" if who == side else "receiver", n)
        return "key-phase-desync:unrelated-secrets"
    return None


# ------------------------------------------------------------------ C06


class CreditLedger(Monitor):
    """Conservation ledger kept outside the sender, from the wire only.

    limits in force for sender S = its peer's transport parameters (the peer's configured values)
    plus every MAX_DATA / MAX_STREAM_DATA / MAX_STREAMS frame in a packet *delivered to S*
    (maximum seen; lost updates never count). Checked at every packet S emits."""

    name = "credit"

    def __init__(self):
        super().__init__()
        self.lim = {}
        self.highest = {"client": {}, "server": {}}
        self.other_stream_frames_checked = 0
        self.stream_frames = 0
        self.blocked_seen = set()  # (sender, kind) limits found exactly exhausted at some point
        self.progress_after_block = set()
        self.updates_delivered = 0
        self.retransmitted_bytes = 0
        self.delivered_bytes = {}  # (receiver, sid) -> bytes handed to the application
        self.delivery_checks = 0

    def attach(self, sim):
        super().attach(sim)
        o = sim.opts
        for s, peer in (("client", "server"), ("server", "client")):
            self.lim[s] = {
                "max_data": o.get("max_data_" + peer, 1048576),
                "stream_default": o.get("max_stream_data_" + peer, 1048576),
                "sd_bidi_local": o.get("msd_bidi_local_" + peer),
                "sd_bidi_remote": o.get("msd_bidi_remote_" + peer),
                "sd_uni": o.get("msd_uni_" + peer),
                "stream": {},
                "bidi": o.get("max_streams_bidi_" + peer, 128),
                "uni": o.get("max_streams_uni_" + peer, 128),
            }
        # 0-RTT: until the server's transport parameters for *this* connection can have reached the
        # client (first Handshake or 1-RTT packet delivered to it), the limits in force for the client
        # are the ones it remembers from the connection that issued the session ticket.
        self.remembered_until = None
        self.remembered_replaced_exactly = 0
        self.zero_rtt_stream_frames = 0
        if o.get("resume") is not None and getattr(sim, "resumed_with_ticket", False):
            po = dict(o)
            po.update(o["resume"])
            self.fresh_client_limits = self.lim["client"]
            self.lim["client"] = {
                "max_data": po.get("max_data_server", 1048576),
                "stream_default": po.get("max_stream_data_server", 1048576),
                "sd_bidi_local": po.get("msd_bidi_local_server"),
                "sd_bidi_remote": po.get("msd_bidi_remote_server"),
                "sd_uni": po.get("msd_uni_server"),
                "stream": {},
                "bidi": po.get("max_streams_bidi_server", 128),
                "uni": po.get("max_streams_uni_server", 128),
            }
            self.remembered_until = "pending"

    def on_event(self, ep, ev, t):
        if type(ev).__name__ == "StreamDataReceived":
            k = (ep.name, ev.stream_id)
            self.delivered_bytes[k] = self.delivered_bytes.get(k, 0) + len(ev.data)

    def _promote(self, t):
        new, old = self.fresh_client_limits, self.lim["client"]
        if self.zero_rtt_stream_frames == 0 and not self.highest["client"]:
            # nothing was sent under the remembered limits: from now on the limits in force are exactly the ones of this
            # connection's transport parameters, also when they are lower than the remembered ones (a server may lower
            # its limits between connections; RFC 9000 7.4.1 only forbids it while accepting 0-RTT data)
            self.lim["client"] = new
            self.remembered_until = t
            self.remembered_replaced_exactly += 1
            return
        for k in ("max_data", "stream_default", "bidi", "uni"):
            old[k] = max(old[k], new[k])
        for k in ("sd_bidi_local", "sd_bidi_remote", "sd_uni"):
            a = old[k] if old.get(k) is not None else old["stream_default"]
            b = new[k] if new.get(k) is not None else new["stream_default"]
            old[k] = max(a, b)
        self.remembered_until = t

    def stream_limit(self, s, sid):
        """limit in force for sender s on stream sid: the peer's transport parameter for that kind of stream
        (RFC 9000 18.2: bidi_local = streams the *advertiser* opened, bidi_remote = streams opened towards it,
        uni = unidirectional streams towards it), raised by delivered MAX_STREAM_DATA frames"""
        L = self.lim[s]
        s_initiated = (sid % 2 == 0) == (s == "client")
        kind = "uni" if sid & 2 else ("bidi_remote" if s_initiated else "bidi_local")
        base = L.get("sd_" + kind)
        if base is None:
            base = L["stream_default"]
        return max(L["stream"].get(sid, 0), base)

    def on_deliver(self, ep, rec, from_addr, t, altered=False):
        L = self.lim[ep.name]
        if self.remembered_until == "pending" and ep.name == "client":
            # permissive: any server packet above the Initial level (even one the tap cannot read)
            if rec.views is None or any(v.ptype in ("handshake", "1rtt", "unknown") for v in rec.views):
                self._promote(t)
        for v in self.sim.views_possibly_intact(rec, altered):
            if v.error:
                continue
            for f in v.frames:
                n = f["name"]
                if n == "MAX_DATA":
                    L["max_data"] = max(L["max_data"], f["maximum"])
                    self.updates_delivered += 1
                elif n == "MAX_STREAM_DATA":
                    L["stream"][f["stream_id"]] = max(L["stream"].get(f["stream_id"], 0), f["maximum"])
                    self.updates_delivered += 1
                elif n == "MAX_STREAMS_BIDI":
                    L["bidi"] = max(L["bidi"], f["maximum"])
                    self.updates_delivered += 1
                elif n == "MAX_STREAMS_UNI":
                    L["uni"] = max(L["uni"], f["maximum"])
                    self.updates_delivered += 1

    def on_datagram_out(self, ep, rec, t):
        s = ep.name
        L = self.lim[s]
        hi = self.highest[s]
        for v in rec.views or []:
            if v.error:
                continue
            for f in v.frames:
                n = f["name"]
                if n in ("STOP_SENDING", "MAX_STREAM_DATA", "STREAM_DATA_BLOCKED"):
                    # any frame naming a stream S initiates opens that stream at the peer (RFC 9000 3.2 / 4.6): it is
                    # bound by the peer's stream-count limit just like STREAM and RESET_STREAM
                    sid = f["stream_id"]
                    self.other_stream_frames_checked += 1
                    if (sid % 2 == 0) == (s == "client"):
                        kind = "uni" if sid & 2 else "bidi"
                        if sid // 4 >= L[kind]:
                            raise Violation("credit:stream-count-exceeded:%s:%s" % (kind, n), "%s sent %s for its own stream %d (#%d) with max_streams_%s=%d in force" % (s, n, sid, sid // 4 + 1, kind, L[kind]), {"t": t})
                    continue
                if n not in ("STREAM", "RESET_STREAM"):
                    continue
                self.evaluations += 1
                sid = f["stream_id"]
                end = f["offset"] + f["length"] if n == "STREAM" else f["final_size"]
                if n == "STREAM":
                    self.stream_frames += 1
                    if v.ptype == "0rtt":
                        self.zero_rtt_stream_frames += 1
                    if end <= hi.get(sid, 0) and f["length"]:
                        self.retransmitted_bytes += f["length"]
                limit = self.stream_limit(s, sid)
                if end > limit:
                    raise Violation("credit:stream-limit-exceeded:%s" % n, "%s sent %s on stream %d up to offset %d, per-stream limit in force %d" % (s, n, sid, end, limit), {"t": t, "pn": v.pn})
                # stream-count limit for streams S itself initiates
                s_initiated = (sid % 2 == 0) == (s == "client")
                if s_initiated:
                    kind = "uni" if sid & 2 else "bidi"
                    if sid // 4 >= L[kind]:
                        raise Violation("credit:stream-count-exceeded:%s" % kind, "%s opened stream %d (#%d) with max_streams_%s=%d in force" % (s, sid, sid // 4 + 1, kind, L[kind]), {"t": t})
                if end > hi.get(sid, 0):
                    if (s, "any") in self.blocked_seen:
                        self.progress_after_block.add(s)
                    hi[sid] = end
                total = sum(hi.values())
                if total > L["max_data"]:
                    raise Violation("credit:connection-limit-exceeded", "%s: sum of highest offsets %d > max_data in force %d (after %s on stream %d)" % (s, total, L["max_data"], n, sid), {"t": t, "highest": dict(hi)})
                if total == L["max_data"] or hi.get(sid, 0) == limit:
                    self.blocked_seen.add((s, "any"))

    def at_end(self, sim):
        """Blocked data must have a reason in the ledger (bounded progress)."""
        if sim.stopped_reason == "step-cap":
            return
        for (side, sid), w in sim.written.items():
            recv = "server" if side == "client" else "client"
            if (side, sid) in sim.reset_by_sender or (recv, sid) in sim.stop_requested:
                continue
            L = self.lim[side]
            hi = self.highest[side]
            sent = hi.get(sid, 0)
            # bytes that were on the wire at least once are covered by credit already granted: losing them must not
            # require fresh credit ("retransmissions consume no additional credit"), so after the fair phase the
            # receiving application has them all, whatever is left of the limits
            self.delivery_checks += 1
            got = self.delivered_bytes.get((recv, sid), 0)
            if got < min(sent, w) and self.sim.ep(recv) is not None and not self.sim.ep(recv).terminated and not self.sim.ep(side).terminated:
                total = sum(hi.values())
                why = "connection-credit-exhausted" if total >= L["max_data"] else ("stream-credit-exhausted" if sent >= self.stream_limit(side, sid) else "credit-left")
                raise Violation("credit:sent-bytes-never-delivered:" + why,
                                "%s stream %d: %d bytes were sent at least once (within the limits) but only %d reached the peer application by the end of the fair phase; "
                                "stream limit %d, max_data %d (used %d): lost data was not retransmitted" % (side, sid, min(sent, w), got, self.stream_limit(side, sid), L["max_data"], total),
                                {"highest": dict(hi), "delivered": {str(k): v for k, v in self.delivered_bytes.items()}})
            if sent >= w:
                continue
            self.evaluations += 1
            reasons = []
            if sent == self.stream_limit(side, sid):
                reasons.append("stream-limit")
            if sum(hi.values()) == L["max_data"]:
                reasons.append("connection-limit")
            s_initiated = (sid % 2 == 0) == (side == "client")
            if s_initiated and sid // 4 >= L["uni" if sid & 2 else "bidi"]:
                reasons.append("stream-count")
            if not reasons:
                mech = diagnose_stall(sim)
                if mech:
                    raise Violation("stall:" + mech, "%s stream %d: %d of %d bytes sent, no limit exhausted [diagnosis: %s]" % (side, sid, sent, w, mech), None)
                raise Violation("credit:blocked-with-credit-available", "%s stream %d: only %d of %d written bytes ever sent by the end of the fair phase although stream limit %d, max_data %d (used %d) and stream count allow more" % (side, sid, sent, w, self.stream_limit(side, sid), L["max_data"], sum(hi.values())), {"limits": {k: v for k, v in L.items() if k != "stream"}, "stream_limits": L["stream"], "highest": dict(hi)})


# ------------------------------------------------------------------ C12


_OPENED = []  # (CryptoPair object, packet number) appended by the decrypt_packet watch, cleared around every delivery


class AckMonitor(Monitor):
    """ACK soundness (every acknowledged number was delivered authentic in that space) and timeliness."""

    name = "ack"

    def __init__(self, check_timeliness=True, slack=1e-6):
        super().__init__()
        self.delivered = {}  # (endpoint, space) -> set of pn
        self.largest = {}
        self.obligations = []  # dict(ep, space, pn, t, deadline)
        self.ack_frames_checked = 0
        self.acked_numbers_checked = 0
        self.timeliness_obligations = 0
        self.timeliness_met = 0
        self.next_tx_obligations = 0
        self.exempt = 0
        self.check_timeliness = check_timeliness
        self.slack = slack
        self.pending_next = {}  # (ep, space) -> set(pn) to be covered by next packet in that space
        self.maybe_accepted = set()  # (ep, space, pn) possibly accepted earlier from a corrupted copy
        self.valid_addrs = {}  # endpoint -> addresses validated according to the monitor's own path model
        self.active_addr = {}  # endpoint -> address the endpoint has to use according to that model
        self.largest_opened = {}  # (endpoint, space) -> highest packet number opened
        self.challenges = {}  # endpoint -> {PATH_CHALLENGE data: address it was sent to}
        self.path_changes = 0
        self.exempt_path_switched = 0
        self.owed_on_unvalidated_path_with_budget = 0
        self.addr_rx = {}
        self.addr_tx = {}
        self.max_ranges = 0  # largest number of ranges seen in one ACK frame
        self.judged_next = set()  # (ep, space, pn) of Initial/Handshake obligations already compared with what was opened
        self.exempt_not_opened = 0
        self.opened_and_owed = 0

    PROBING = ("PATH_CHALLENGE", "PATH_RESPONSE", "NEW_CONNECTION_ID", "PADDING")

    def _track_paths(self, ep, rec, from_addr, t, altered, opened):
        """The monitor's own model of the server's paths (RFC 9000 section 9), fed only by what was delivered and opened:
        an address is validated once an authentic Handshake packet from it was opened, or a PATH_RESPONSE echoing a
        PATH_CHALLENGE the server sent to it; the address in use is the source of the highest-numbered non-probing
        packet opened so far.  When the address in use becomes one that is not validated, what the server may send is
        bounded by the anti-amplification limit, which can be smaller than one ACK-bearing packet: obligations still
        open at that moment are waived (and new ones are not created until the address is validated)."""
        if ep.name != "server":
            return
        views = self.sim.views_possibly_intact(rec, altered) if altered else (rec.views or [])
        valid = self.valid_addrs.setdefault(ep.name, set())
        before = self.active_addr.get(ep.name)
        for v in views:
            if v.error or v.pn is None or (v.space, v.pn) not in opened:
                continue
            k = (ep.name, v.space)
            if v.pn > self.largest_opened.get(k, -1):
                # (only a packet that carries the highest number so far is certain to be processed: one that was opened but
                # lies below what an ACK-of-ACK already pruned is discarded as a possible duplicate, RFC 9000 12.3 —
                # a late PATH_RESPONSE in such a packet validates nothing, and the model must not claim more than the
                # endpoint can know)
                if v.ptype == "handshake":
                    valid.add(from_addr)
                for f in v.frames:
                    if f["name"] == "PATH_RESPONSE":
                        a = self.challenges.get(ep.name, {}).get(bytes(f["data"]))
                        if a is not None:
                            valid.add(a)
                self.largest_opened[k] = v.pn
                if not all(f["name"] in self.PROBING for f in v.frames) or before is None:
                    self.active_addr[ep.name] = from_addr
        now_active = self.active_addr.get(ep.name)
        if now_active != before:
            self.path_changes += 1
        if now_active is not None and now_active not in valid and self._budget(ep.name, now_active) < self.ROOM_FOR_AN_ACK:
            # (with room for an ACK-bearing packet in the budget the acknowledgement is owed in time on the new path too:
            # ACK frames are not congestion controlled and nothing else has to go first)
            for ob in self.obligations:
                if not ob["met"] and ob["ep"] == ep.name and t <= ob["deadline"]:
                    ob["met"] = True
                    self.exempt += 1
                    self.exempt_path_switched += 1

    @staticmethod
    def _install_open_watch():
        """Observe, one layer below the connection, which packets an endpoint's packet protection opened: wrap
        CryptoPair.decrypt_packet (class level, once per process) to append (pair object, packet number) on success."""
        from aioquic.quic import crypto

        if getattr(crypto.CryptoPair.decrypt_packet, "_verif_watch", False):
            return
        orig = crypto.CryptoPair.decrypt_packet

        def decrypt_packet(self, packet, encrypted_offset, expected_packet_number):
            out = orig(self, packet, encrypted_offset, expected_packet_number)
            _OPENED.append((self, out[2]))
            return out

        decrypt_packet._verif_watch = True
        crypto.CryptoPair.decrypt_packet = decrypt_packet

    @staticmethod
    def _opened_by(ep):
        """{(space, pn)} opened by this endpoint since the last on_deliver."""
        from aioquic import tls

        conn = ep.conn
        pairs = {}
        for pair in getattr(conn, "_cryptos_initial", {}).values():
            pairs[id(pair)] = "I"
        for epoch, pair in getattr(conn, "_cryptos", {}).items():
            pairs.setdefault(id(pair), {tls.Epoch.INITIAL: "I", tls.Epoch.HANDSHAKE: "H"}.get(epoch, "A"))
        return {(pairs[id(pair)], pn) for pair, pn in _OPENED if id(pair) in pairs}

    ROOM_FOR_AN_ACK = 200  # bytes of anti-amplification budget with which an ACK-bearing packet certainly fits

    def _budget(self, ep_name, addr):
        """the monitor's own anti-amplification ledger for one address: 3 x received - sent"""
        return 3 * self.addr_rx.get((ep_name, addr), 0) - self.addr_tx.get((ep_name, addr), 0)

    def on_deliver(self, ep, rec, from_addr, t, altered=False):
        self._install_open_watch()
        del _OPENED[:]
        self.addr_rx[(ep.name, from_addr)] = self.addr_rx.get((ep.name, from_addr), 0) + len(rec.data)
        if altered:
            # packets of a corrupted copy that do not contain the flipped byte are still authentic
            for v in self.sim.views_possibly_intact(rec, altered):
                if v.pn is not None and not v.error:
                    self.delivered.setdefault((ep.name, v.space), set()).add(v.pn)
                    # ... and may already have been accepted (and acknowledged) from this copy, in
                    # which case the genuine copy that follows is a duplicate and owes nothing
                    self.maybe_accepted.add((ep.name, v.space, v.pn))
            return
        for v in rec.views or []:
            if v.pn is None or v.error:
                continue
            sp = v.space
            key = (ep.name, sp)
            self.delivered.setdefault(key, set()).add(v.pn)
            if not v.ack_eliciting or v.pn <= self.largest.get(key, -1):
                if v.pn > self.largest.get(key, -1):
                    self.largest[key] = v.pn
                continue
            self.largest[key] = v.pn
            if not self.check_timeliness or ep.terminated:
                continue
            if (ep.name, sp, v.pn) in self.maybe_accepted:
                self.exempt += 1
                continue
            if sp == "A":
                closing = ep.conn._state.name in ("CLOSING", "DRAINING", "TERMINATED") or ep.conn._close_pending
                # the monitor's own path model (see _track_paths), not the connection's: the server's acknowledgements are
                # only owed in time while the address it has to use is one that was validated
                path_ok = (ep.name != "server" or self.active_addr.get(ep.name) is None or self.active_addr[ep.name] in self.valid_addrs.get(ep.name, ())
                           or self._budget(ep.name, self.active_addr[ep.name]) >= self.ROOM_FOR_AN_ACK)
                if path_ok and ep.name == "server" and self.active_addr.get(ep.name) is not None and self.active_addr[ep.name] not in self.valid_addrs.get(ep.name, ()):
                    self.owed_on_unvalidated_path_with_budget += 1
                # (a 0-RTT packet that arrives *after* the handshake completed is an application-space packet like any
                # other: if it carries the highest number so far it is owed a timely acknowledgement)
                # (a packet from another address than the active path's: if it makes the endpoint move to that (unvalidated)
                # path the exemption in on_step applies; if it does not — a probing-only packet — the acknowledgement
                # travels on the validated active path and is owed in time)
                if v.ptype not in ("1rtt", "0rtt") or not ep.handshake_complete or closing or not path_ok:
                    self.exempt += 1
                    continue
                self.obligations.append({"ep": ep.name, "space": sp, "pn": v.pn, "t": t, "deadline": t + 0.025 + self.slack, "met": False})
                self.timeliness_obligations += 1
            else:
                self.pending_next.setdefault(key, set()).add(v.pn)
                self.next_tx_obligations += 1

    def after_deliver(self, ep, rec, from_addr, t, altered=False):
        # packets the endpoint legitimately could not process yet (keys not available, space gone) owe nothing
        from aioquic import tls

        emap = {"I": tls.Epoch.INITIAL, "H": tls.Epoch.HANDSHAKE, "A": tls.Epoch.ONE_RTT}
        # Whether the endpoint could open a packet is observed one layer below the code under judgement: at the
        # packet-protection object (CryptoPair.decrypt_packet returned the packet number).  A packet that was not
        # opened (unknown connection ID, keys discarded or not yet installed, key-phase desync) owes nothing; one that
        # was opened and did not end the connection is owed its acknowledgement, whatever the connection's own
        # bookkeeping (ack_queue) says.
        opened = self._opened_by(ep)  # (the list is cleared at the start of the next delivery: other monitors read it too)
        self._track_paths(ep, rec, from_addr, t, altered, opened)
        closing = ep.terminated or ep.conn._state.name in ("CLOSING", "DRAINING", "TERMINATED") or ep.conn._close_pending
        for key in list(self.pending_next):
            if key[0] != ep.name:
                continue
            sp = ep.conn._spaces.get(emap[key[1]]) if hasattr(ep.conn, "_spaces") else None
            if sp is None or sp.discarded or closing:
                self.exempt += len(self.pending_next.pop(key))
                continue
            for pn in list(self.pending_next[key]):
                if (key[0], key[1], pn) in self.judged_next:
                    continue
                self.judged_next.add((key[0], key[1], pn))
                if (key[1], pn) not in opened:
                    self.pending_next[key].discard(pn)
                    self.exempt += 1
                    self.exempt_not_opened += 1
                else:
                    self.opened_and_owed += 1
        for ob in self.obligations:
            if ob["ep"] == ep.name and not ob["met"] and ob["t"] == t and not ob.get("judged"):
                ob["judged"] = True
                if ("A", ob["pn"]) not in opened:
                    ob["met"] = True
                    self.exempt += 1
                    self.exempt_not_opened += 1
                    self.timeliness_obligations -= 1
                else:
                    self.opened_and_owed += 1

    def on_datagram_out(self, ep, rec, t):
        self.addr_tx[(ep.name, rec.addr)] = self.addr_tx.get((ep.name, rec.addr), 0) + len(rec.data)
        if ep.name == "server":
            act = self.active_addr.get(ep.name)
            if act is not None and act not in self.valid_addrs.get(ep.name, ()) and self._budget(ep.name, act) < self.ROOM_FOR_AN_ACK:
                # the endpoint has meanwhile used its budget for the unvalidated address (on data, legitimately): an
                # acknowledgement that becomes due now cannot be sent until more arrives from there
                for ob in self.obligations:
                    if not ob["met"] and ob["ep"] == ep.name and t <= ob["deadline"]:
                        ob["budget_gone"] = True
        for v in rec.views or []:
            if v.error or v.pn is None:
                continue
            for f in v.frames:
                if f["name"] == "PATH_CHALLENGE":
                    self.challenges.setdefault(ep.name, {})[bytes(f["data"])] = rec.addr
            sp = v.space
            key = (ep.name, sp)
            acks = [f for f in v.frames if f["name"] in ("ACK", "ACK_ECN")]
            covered = set()
            for f in acks:
                self.ack_frames_checked += 1
                self.evaluations += 1
                if len(f["ranges"]) > self.max_ranges:
                    self.max_ranges = len(f["ranges"])
                dset = self.delivered.get(key, set())
                for lo, hi in f["ranges"]:
                    if hi - lo > 200000:
                        raise Violation("ack:acknowledges-undelivered", "%s ACK range [%d,%d] in space %s is larger than anything delivered" % (ep.name, lo, hi, sp), {"t": t})
                    for n in range(lo, hi + 1):
                        self.acked_numbers_checked += 1
                        if n not in dset:
                            raise Violation("ack:acknowledges-undelivered", "%s acknowledged packet number %d in space %s, which was never delivered to it as an authentic packet" % (ep.name, n, sp), {"t": t, "ranges": f["ranges"][:6], "delivered_max": max(dset) if dset else None})
                        covered.add(n)
            if sp in ("I", "H") and key in self.pending_next:
                missing = self.pending_next[key] - covered
                if missing and self.check_timeliness:
                    raise Violation("ack:next-transmission-lacks-ack:%s" % sp, "%s sent a packet in space %s without acknowledging ack-eliciting packet(s) %s received earlier in that space" % (ep.name, sp, sorted(missing)[:5]), {"t": t, "frames": [f["name"] for f in v.frames]})
                self.pending_next.pop(key, None)
            if sp == "A" and covered:
                for ob in self.obligations:
                    if not ob["met"] and ob["ep"] == ep.name and ob["pn"] in covered:
                        ob["met"] = True
                        if t > ob["deadline"] and ob.get("budget_gone"):
                            self.exempt += 1
                            self.exempt_budget_spent = getattr(self, "exempt_budget_spent", 0) + 1
                            continue
                        if t > ob["deadline"]:
                            raise Violation("ack:late", "%s acknowledged 1-RTT packet %d after %.1f ms (received t=%.4f, ack sent t=%.4f; advertised max_ack_delay 25 ms, timers fired on time)" % (ep.name, ob["pn"], (t - ob["t"]) * 1000, ob["t"], t), {"t": t})
                        self.timeliness_met += 1

    def on_step(self, ep, t, cause):
        if not self.check_timeliness:
            return
        for ob in self.obligations:
            if not ob["met"] and ob["ep"] == ep.name and t > ob["deadline"] + 0.05:
                if ep.terminated or ep.conn._state.name != "CONNECTED" or ep.conn._close_pending or ob.get("budget_gone"):
                    ob["met"] = True
                    self.exempt += 1
                    continue
                raise Violation("ack:missing", "%s never acknowledged 1-RTT ack-eliciting packet %d received at t=%.4f (now %.4f)" % (ep.name, ob["pn"], ob["t"], t), {"cause": cause})
        self.obligations = [ob for ob in self.obligations if not ob["met"]]

    def at_end(self, sim):
        # obligations still open when the run ends: overdue ones are violations like any other, the rest were not decided
        for ob in self.obligations:
            if ob["met"]:
                continue
            ep = sim.ep(ob["ep"])
            if ep is None or ep.terminated or ep.conn._state.name != "CONNECTED" or ep.conn._close_pending:
                self.exempt += 1
                continue
            if ob.get("budget_gone"):
                self.exempt += 1
                continue
            if sim.now > ob["deadline"] + 0.05 and sim.stopped_reason != "step-cap":
                raise Violation("ack:missing", "%s never acknowledged 1-RTT ack-eliciting packet %d received at t=%.4f (run ended at %.4f, %s)" % (ob["ep"], ob["pn"], ob["t"], sim.now, sim.stopped_reason), None)
            self.open_at_end = getattr(self, "open_at_end", 0) + 1


# ------------------------------------------------------------------ C13


class EmissionMonitor(Monitor):
    """Datagram size, Initial padding and anti-amplification ledger per (endpoint, peer address)."""

    name = "emission"

    def __init__(self):
        super().__init__()
        self.sent = {}  # (endpoint, addr) -> bytes
        self.received = {}
        self.validated = set()  # (endpoint, addr)
        self.challenges = {}  # endpoint -> {data: addr}
        self.datagrams_checked = 0
        self.initial_datagrams = 0
        self.amplification_checks = 0
        self.max_ratio_x100 = 0
        self.unvalidated_sends = 0
        self.flight_room = {}  # endpoint -> congestion window - bytes in flight, read just before datagrams_to_send
        self.batch_bytes = {}  # endpoint -> bytes emitted so far by the current datagrams_to_send call
        self.soft = []  # violations that do not stop the run (the padding rule): reported once per signature

    def soft_report(self, v):
        if all(x.signature != v.signature for x in self.soft):
            self.soft.append(v)

    def before_send(self, ep, t):
        loss = ep.conn._loss
        room = loss.congestion_window - loss.bytes_in_flight
        if ep.conn._probe_pending and room < ep.conn._max_datagram_size:
            # a pending probe is allowed one full datagram whatever the congestion window says (RFC 9002 7.5):
            # a short Initial datagram sent as a probe is *not* explained by the window
            room = ep.conn._max_datagram_size
        self.flight_room[ep.name] = room
        self.batch_bytes[ep.name] = 0
        # the endpoint's own anti-amplification budget for its current path (hooked state; used only to tell the
        # mechanisms of a short Initial datagram apart, never to decide whether the limit was respected)
        paths = getattr(ep.conn, "_network_paths", None) or []
        self.own_budget = getattr(self, "own_budget", {})
        self.own_budget[ep.name] = None if (not paths or paths[0].is_validated) else 3 * paths[0].bytes_received - paths[0].bytes_sent

    def on_deliver(self, ep, rec, from_addr, t, altered=False):
        key = (ep.name, from_addr)
        self.received[key] = self.received.get(key, 0) + len(rec.data)
        if altered:
            return
        for v in rec.views or []:
            if v.error or v.pn is None:
                continue
            if v.ptype == "handshake":
                # conservative-late: an authentic Handshake packet from this address was delivered
                self.validated.add(key)
            for f in v.frames:
                if f["name"] == "PATH_RESPONSE":
                    a = self.challenges.get(ep.name, {}).get(bytes(f["data"]))
                    if a is not None:
                        self.validated.add((ep.name, a))

    def on_datagram_out(self, ep, rec, t):
        self.evaluations += 1
        self.datagrams_checked += 1
        n = len(rec.data)
        mds = self.sim.opts.get("mds_" + ep.name, 1200)
        if ep.name == "server" and not ep.handshake_complete and any(
            v.ptype == "1rtt" and any(f["name"] == "STREAM" for f in v.frames) for v in rec.views or [] if not v.error
        ):
            self.server_sent_before_hs = getattr(self, "server_sent_before_hs", 0) + 1  # 0.5-RTT data
        if n > mds:
            raise Violation("emission:datagram-exceeds-max_datagram_size", "%s emitted a %d-byte datagram, max_datagram_size=%d" % (ep.name, n, mds), {"t": t, "views": [v.brief() for v in rec.views or []]})
        has_initial = any(v.ptype == "initial" for v in rec.views or [])
        ae_initial = any(v.ptype == "initial" and v.ack_eliciting for v in rec.views or [])
        if has_initial:
            self.initial_datagrams += 1
            if ep.name == "client" and n < 1200:
                # which budget was short when the datagram was built (hooked state, read before datagrams_to_send)
                room = self.flight_room.get(ep.name)
                why = "congestion-window-below-1200" if (room is not None and room - self.batch_bytes.get(ep.name, 0) < 1200) else "budget-sufficient"
                self.soft_report(Violation("emission:client-initial-datagram-below-1200:" + why,
                                           "client datagram containing an Initial packet is %d bytes (congestion window room before sending: %s, already emitted in this call: %d)" % (n, room, self.batch_bytes.get(ep.name, 0)),
                                           {"t": t, "views": [v.brief() for v in rec.views or []]}))
            if ep.name == "server" and ae_initial and n < 1200:
                key = (ep.name, rec.addr)
                budget = 3 * self.received.get(key, 0) - self.sent.get(key, 0)
                room = self.flight_room.get(ep.name)
                own = getattr(self, "own_budget", {}).get(ep.name)
                if (key not in self.validated and budget < 1200) or (own is not None and own - self.batch_bytes.get(ep.name, 0) < 1200):
                    why = "amplification-budget-below-1200"
                elif room is not None and room - self.batch_bytes.get(ep.name, 0) < 1200:
                    why = "congestion-window-below-1200"
                else:
                    why = "budget-sufficient"
                self.soft_report(Violation("emission:server-ack-eliciting-initial-datagram-below-1200:" + why,
                                           "server datagram containing an ack-eliciting Initial packet is %d bytes (anti-amplification budget left for that address before sending: %s)" % (n, budget if key not in self.validated else "validated"),
                                           {"t": t, "views": [v.brief() for v in rec.views or []]}))
        self.batch_bytes[ep.name] = self.batch_bytes.get(ep.name, 0) + n
        for v in rec.views or []:
            for f in v.frames:
                if f["name"] == "PATH_CHALLENGE":
                    self.challenges.setdefault(ep.name, {})[bytes(f["data"])] = rec.addr
        if ep.name == "server":
            key = (ep.name, rec.addr)
            self.sent[key] = self.sent.get(key, 0) + n
            if key not in self.validated:
                self.amplification_checks += 1
                self.unvalidated_sends += 1
                rx = self.received.get(key, 0)
                if rx:
                    self.max_ratio_x100 = max(self.max_ratio_x100, int(100 * self.sent[key] / rx))
                if self.sent[key] > 3 * rx:
                    raise Violation("emission:amplification-limit-exceeded", "server sent %d bytes to unvalidated address %r having received %d from it (limit %d)" % (self.sent[key], rec.addr, rx, 3 * rx), {"t": t, "views": [v.brief() for v in rec.views or []]})


# ------------------------------------------------------------------ C09


def ref_pto(conn):
    """Probe timeout per RFC 9002 6.2.1 computed from the RTT estimator's fields (hooked state), *without* the
    exponential backoff and without calling the library's own helper: smoothed_rtt + max(4*rttvar, 1 ms) + max_ack_delay,
    or twice the initial RTT before the first sample."""
    loss = conn._loss
    if not loss._rtt_initialized:
        return 2 * loss._rtt_initial
    return loss._rtt_smoothed + max(4 * loss._rtt_variance, 0.001) + loss.max_ack_delay


class CloseMonitor(Monitor):
    """Temporal monitor: termination exactly once, closing deadline, closing packets only, silence afterwards."""

    name = "close"

    def __init__(self, on_time=True):
        super().__init__()
        self.on_time = on_time
        self.t0 = {}  # endpoint -> (t0, pto0, kind)
        self.term = {}  # endpoint -> [times]
        self.after_term_events = 0
        self.closing_checks = 0
        self.deadline_checks = 0
        self.idle_checks = 0
        self.last_rx = {}  # endpoint -> (t, pto)
        self.close_kinds = set()
        self.close_dgram_step = {}
        self.idle_early_checks = 0
        self.peer_close_seen_on_the_wire = 0
        self.largest_opened = {}
        self.last_rx_certain = {}
        self.api_close = {}  # endpoint -> (t, pto) of the application's close() call on a connection that was not closing
        self.api_close_deadline_checks = 0

    def on_deliver(self, ep, rec, from_addr, t, altered=False):
        AckMonitor._install_open_watch()
        del _OPENED[:]

    def on_app(self, ep, op, t, outcome):
        # The application called close(); the driver lets the connection transmit at this very instant, which is when
        # the closing period starts — whether or not a closing packet can leave (an endpoint at its anti-amplification
        # limit has nothing it may send).
        if op.get("op") == "close" and ep.name not in self.api_close and ep.name not in self.t0 and not ep.terminated:
            try:
                if ep.conn._close_pending and ep.conn._state.name not in ("CLOSING", "DRAINING", "TERMINATED"):
                    self.api_close[ep.name] = (t, ref_pto(ep.conn))
            except Exception:
                pass

    def after_deliver(self, ep, rec, from_addr, t, altered=False):
        if altered or ep.terminated:
            return
        authentic = [v for v in rec.views or [] if v.pn is not None and not v.error]
        if authentic:
            try:
                self.last_rx[ep.name] = (t, ref_pto(ep.conn))
            except Exception:
                pass
            # ... and the last packet that was *certainly* processed (opened by the endpoint's packet protection and
            # carrying the highest number of its space so far, hence no duplicate): the idle period cannot have started
            # earlier than that
            opened = AckMonitor._opened_by(ep)
            for v in authentic:
                k = (ep.name, v.space)
                if (v.space, v.pn) in opened and v.pn > self.largest_opened.get(k, -1):
                    self.largest_opened[k] = v.pn
                    self.last_rx_certain[ep.name] = t
                    # a CONNECTION_CLOSE in a packet that was certainly processed: the endpoint is draining from now on,
                    # whatever its own state variable says
                    if ep.name not in self.t0 and any(f["name"].startswith("CONNECTION_CLOSE") for f in v.frames):
                        self.t0[ep.name] = (t, ref_pto(ep.conn), "draining")
                        self.close_kinds.add("peer-close")
                        self.peer_close_seen_on_the_wire += 1
        if ep.name not in self.t0 and ep.conn._state.name == "DRAINING":
            self.t0[ep.name] = (t, ref_pto(ep.conn), "draining")
            self.close_kinds.add("peer-close")

    def on_datagram_out(self, ep, rec, t):
        has_close = any(f["name"].startswith("CONNECTION_CLOSE") for v in rec.views or [] for f in v.frames)
        st = self.t0.get(ep.name)
        if st is not None:
            self.evaluations += 1
            self.closing_checks += 1
            t0, pto0, kind = st
            if kind == "draining":
                raise Violation("close:draining-endpoint-sends", "%s received a CONNECTION_CLOSE at t=%.4f but still emitted a datagram at t=%.4f: %s" % (ep.name, t0, t, [v.brief() for v in rec.views or []]), None)
            if t > t0 or self.close_dgram_step.get(ep.name) != self.sim.steps:
                raise Violation("close:sends-after-closing-packets", "%s began closing at t=%.4f and emitted another datagram at t=%.4f: %s" % (ep.name, t0, t, [v.brief() for v in rec.views or []]), None)
        if has_close:
            if st is None:
                try:
                    pto0 = ref_pto(ep.conn)
                except Exception:
                    pto0 = 1.0
                self.t0[ep.name] = (t, pto0, "closing")
                self.close_dgram_step[ep.name] = self.sim.steps
                self.close_kinds.add("local-close-or-error")
            self.evaluations += 1
            self.closing_checks += 1
            seen_spaces = set()
            for v in rec.views or []:
                if v.ptype == "padding":
                    continue
                names = {f["name"] for f in v.frames}
                if not names <= {"CONNECTION_CLOSE", "CONNECTION_CLOSE_APP", "PADDING"}:
                    raise Violation("close:closing-packet-carries-other-frames", "%s closing packet (%s) carries %s" % (ep.name, v.ptype, sorted(names)), None)
                if v.ptype in seen_spaces:
                    raise Violation("close:more-than-one-closing-packet-per-space", "%s emitted two closing packets of type %s" % (ep.name, v.ptype), None)
                seen_spaces.add(v.ptype)

    def on_event(self, ep, ev, t):
        name = type(ev).__name__
        if name == "ConnectionTerminated":
            self.evaluations += 1
            self.term.setdefault(ep.name, []).append(t)
            if len(self.term[ep.name]) > 1:
                raise Violation("close:terminated-twice", "%s reported ConnectionTerminated twice (t=%s)" % (ep.name, self.term[ep.name]), None)
            st = self.t0.get(ep.name)
            if st is not None and self.on_time:
                t0, pto0, kind = st
                self.deadline_checks += 1
                if t > t0 + 3 * pto0 + 1e-6 + self._spin_slack(ep):
                    raise Violation("close:termination-later-than-3-pto", "%s began %s at t=%.4f with PTO %.4f but reported termination at t=%.4f (> t0+3*PTO=%.4f)" % (ep.name, kind, t0, pto0, t, t0 + 3 * pto0), None)
            elif st is None and self.on_time and ep.name in self.api_close and ev.reason_phrase != "Idle timeout":
                # no closing packet was ever seen on the wire, yet the application had closed: same deadline, counted
                # from the close() call
                t0, pto0 = self.api_close[ep.name]
                self.api_close_deadline_checks += 1
                if t > t0 + 3 * pto0 + 1e-6 + self._spin_slack(ep):
                    raise Violation("close:termination-later-than-3-pto:no-closing-packet", "%s: close() was called at t=%.4f with PTO %.4f, no closing packet left, termination reported at t=%.4f (> t0+3*PTO=%.4f)" % (ep.name, t0, pto0, t, t0 + 3 * pto0), None)
            elif st is None and self.on_time:
                # idle timeout (or version negotiation failure): must not be later than the idle deadline
                lr = self.last_rx.get(ep.name)
                if lr is not None and ev.reason_phrase == "Idle timeout":
                    self.idle_checks += 1
                    o = self.sim.opts
                    local = o.get("idle_" + ep.name, 600.0)
                    remote = o.get("idle_" + ("server" if ep.name == "client" else "client"), 600.0)
                    # the peer's value is only known once its transport parameters were processed
                    idle = min(local, remote) if ep.handshake_complete else max(local, remote)
                    # what the peer *advertised* (another stack may say 0 = "no idle timeout of mine", RFC 9000 10.1 / 18.2)
                    other = "server" if ep.name == "client" else "client"
                    adv = (o.get("advertise_" + other) or {}).get("max_idle_timeout")
                    if adv is not None:
                        remote = adv / 1000.0
                        idle = local if remote == 0 else (min(local, remote) if ep.handshake_complete else max(local, remote))
                    if local == 0 or remote == 0:
                        # 0 = "no idle timeout of mine" (RFC 9000 10.1): the other value applies alone; none at all
                        # leaves three probe timeouts as the only bound the library knows
                        nz = [x for x in (local, remote) if x > 0]
                        idle = (min(nz) if ep.handshake_complete or local == 0 else max(nz)) if nz else 0.0
                    deadline = lr[0] + max(idle, 3 * lr[1])
                    self.close_kinds.add("idle")
                    # ... and not before an idle period of the negotiated length has passed since the last packet
                    # (lower bound: the smaller of the non-zero advertised values; the restart rule for sent packets can
                    # only move the deadline further out)
                    lrc = self.last_rx_certain.get(ep.name)
                    earliest = lrc + min(x for x in (local, remote) if x > 0) if (lrc is not None and any(x > 0 for x in (local, remote))) else None
                    self.idle_early_checks += 1
                    if local == 0:
                        # (an endpoint configured with idle_timeout 0 advertises "none" and, as the library stands,
                        # idles out after three probe timeouts: no commitment was made, nothing to hold it to)
                        earliest = None
                    if earliest is not None and t < earliest - 1e-6:
                        lr = (lrc, lr[1])
                        raise Violation("close:idle-termination-early", "%s: last packet certainly processed at t=%.4f, idle timeouts advertised: own %.3f, peer %.3f (0 = none), terminated with 'Idle timeout' at t=%.4f, %.3f s after it" % (ep.name, lr[0], local, remote, t, t - lr[0]), None)
                    if t > deadline + 1e-6 + self._spin_slack(ep):
                        raise Violation("close:idle-termination-late", "%s: last authentic packet processed at t=%.4f, negotiated idle timeout %.3f (3*PTO=%.3f), terminated at t=%.4f" % (ep.name, lr[0], idle, 3 * lr[1], t), None)
        elif ep.name in self.term:
            self.after_term_events += 1
            raise Violation("close:event-after-termination", "%s returned %s after ConnectionTerminated" % (ep.name, name), None)

    @staticmethod
    def _spin_slack(ep):
        """The driver fires a timer late (by at most 50 ms) when the connection re-arms an already
        expired deadline in a loop; deadlines are then judged with that much slack."""
        return 0.0505 if getattr(ep, "spin_total", 0) else 0.0

    def on_step(self, ep, t, cause):
        if ep.terminated and ep.timer_at is not None:
            # a terminated connection has nothing to wait for
            pass

    def at_end(self, sim):
        # keep poking terminated endpoints: nothing may come out any more
        for ep in (sim.client, sim.server):
            if ep is None or not ep.terminated:
                continue
            for _ in range(10):
                self.evaluations += 1
                if sim.call(ep, "next_event") is not None:
                    raise Violation("close:event-after-termination", "%s returned an event after ConnectionTerminated (poked at the end)" % ep.name, None)
                if sim.call(ep, "datagrams_to_send", now=sim.now + 1.0):
                    raise Violation("close:sends-after-termination", "%s emitted a datagram after ConnectionTerminated" % ep.name, None)
                if sim.call(ep, "get_timer") is not None:
                    raise Violation("close:timer-after-termination", "%s still requests a timer after ConnectionTerminated" % ep.name, None)
