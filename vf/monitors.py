"""E4: oracles subscribing to simnet / tap streams. Each raises vf.common.Violation."""

from __future__ import annotations

import math

from .common import Violation, prf_bytes
from .frames import acked_numbers
from .simnet import Monitor

TRANSPORT_ERRORS = {
    0x0: "NO_ERROR", 0x1: "INTERNAL_ERROR", 0x2: "CONNECTION_REFUSED", 0x3: "FLOW_CONTROL_ERROR",
    0x4: "STREAM_LIMIT_ERROR", 0x5: "STREAM_STATE_ERROR", 0x6: "FINAL_SIZE_ERROR", 0x7: "FRAME_ENCODING_ERROR",
    0x8: "TRANSPORT_PARAMETER_ERROR", 0x9: "CONNECTION_ID_LIMIT_ERROR", 0xA: "PROTOCOL_VIOLATION",
    0xB: "INVALID_TOKEN", 0xC: "APPLICATION_ERROR", 0xD: "CRYPTO_BUFFER_EXCEEDED", 0xE: "KEY_UPDATE_ERROR",
    0xF: "AEAD_LIMIT_REACHED", 0x11: "VERSION_NEGOTIATION_ERROR",
}


def err_name(code):
    if code is None:
        return "None"
    if 0x100 <= code <= 0x1FF:
        return "CRYPTO_ERROR_%d" % (code - 0x100)
    return TRANSPORT_ERRORS.get(code, hex(code))


# ------------------------------------------------------------------ C01


class DeliveryModel(Monitor):
    """Prefix / exactly-once / end-of-stream oracle over StreamDataReceived events.
    The model is 'the bytes that were written' (self-identifying PRF bytes)."""

    name = "delivery"

    def __init__(self, forbid_termination=True):
        super().__init__()
        self.delivered = {}  # (receiver side, sid) -> count
        self.ended = set()
        self.reset_seen = set()
        self.forbid_termination = forbid_termination
        self.bytes_checked = 0
        self.end_events = 0
        self.reset_events = 0
        self.data_after_reset = 0
        self.duplicate_resets = 0

    def on_event(self, ep, ev, t):
        sim = self.sim
        name = type(ev).__name__
        recv = ep.name
        send = "server" if recv == "client" else "client"
        if name == "StreamDataReceived":
            self.evaluations += 1
            key = (recv, ev.stream_id)
            skey = (send, ev.stream_id)
            d = self.delivered.get(key, 0)
            written = sim.written.get(skey, 0)
            n = len(ev.data)
            if key in self.ended:
                if n:
                    raise Violation("delivery:data-after-end-of-stream", "%s stream %d: %d bytes after end_stream" % (recv, ev.stream_id, n), self._w(ev, d, written))
                if ev.end_stream:
                    raise Violation("delivery:duplicate-end-of-stream", "%s stream %d: end_stream signalled twice" % (recv, ev.stream_id), self._w(ev, d, written))
            if key in self.reset_seen and n:
                self.data_after_reset += 1
            if d + n > written:
                raise Violation("delivery:bytes-never-written", "%s stream %d: delivered %d+%d > written %d" % (recv, ev.stream_id, d, n, written), self._w(ev, d, written))
            exp = prf_bytes("%s/%s/%d" % (sim.seed, send, ev.stream_id), n, d)
            if exp != ev.data:
                kind = "wrong-bytes"
                # classify: repeat (bytes from an earlier offset) or gap (later offset)?
                probe = ev.data[:16]
                if len(probe) >= 8:
                    whole = prf_bytes("%s/%s/%d" % (sim.seed, send, ev.stream_id), written, 0)
                    at = whole.find(probe)
                    if at >= 0:
                        kind = "repeat" if at < d else "gap"
                    else:
                        for (s2, sid2), w2 in sim.written.items():
                            if prf_bytes("%s/%s/%d" % (sim.seed, s2, sid2), w2, 0).find(probe) >= 0:
                                kind = "foreign-stream-bytes"
                                break
                raise Violation("delivery:" + kind, "%s stream %d at offset %d: delivered bytes are not the written bytes" % (recv, ev.stream_id, d), self._w(ev, d, written))
            self.bytes_checked += n
            self.delivered[key] = d + n
            if ev.end_stream:
                self.end_events += 1
                if skey not in sim.fin_written or d + n != written:
                    raise Violation("delivery:premature-end-of-stream", "%s stream %d: end_stream at %d, written %d, fin_written=%s" % (recv, ev.stream_id, d + n, written, skey in sim.fin_written), self._w(ev, d, written))
                self.ended.add(key)
        elif name == "StreamReset":
            self.evaluations += 1
            self.reset_events += 1
            key = (recv, ev.stream_id)
            skey = (send, ev.stream_id)
            if key in self.reset_seen:
                # the property bounds end-of-stream signals, not reset notifications: observation only
                self.duplicate_resets += 1
            if skey not in sim.reset_by_sender and key not in sim.stop_requested:
                raise Violation("delivery:spurious-reset", "%s stream %d: StreamReset but sender never reset and receiver never asked to stop" % (recv, ev.stream_id), None)
            self.reset_seen.add(key)
        elif name == "ConnectionTerminated" and self.forbid_termination:
            raise Violation(
                "closed:%s" % err_name(ev.error_code),
                "%s terminated (code %s, frame %r, reason %r) although nobody closed and the network only dropped/duplicated/reordered" % (recv, err_name(ev.error_code), ev.frame_type, ev.reason_phrase),
                {"t": t},
            )

    def _w(self, ev, d, written):
        return {"stream": ev.stream_id, "delivered_before": d, "written": written, "len": len(ev.data), "end_stream": ev.end_stream, "head": ev.data[:24].hex()}

    def _obligations(self):
        sim = self.sim
        for (side, sid), w in sim.written.items():
            recv = "server" if side == "client" else "client"
            if (side, sid) in sim.reset_by_sender or (recv, sid) in sim.stop_requested:
                continue
            yield side, sid, recv, w

    def complete(self):
        sim = self.sim
        for side, sid, recv, w in self._obligations():
            if self.delivered.get((recv, sid), 0) != w:
                return False
            if (side, sid) in sim.fin_written and (recv, sid) not in self.ended:
                return False
        for k, n in sim.pings.items():
            if n < 1:
                return False
        return True

    def at_end(self, sim):
        # bounded completion is only demanded when the run ended in the fair phase
        if sim.stopped_reason == "step-cap":
            return
        for side, sid, recv, w in self._obligations():
            self.evaluations += 1
            d = self.delivered.get((recv, sid), 0)
            if d != w:
                self._stall("bytes-not-delivered", "%s->%s stream %d: %d of %d bytes delivered by the end of the fair phase (t=%.1f, stop=%s)" % (side, recv, sid, d, w, sim.now, sim.stopped_reason))
            if (side, sid) in sim.fin_written and (recv, sid) not in self.ended:
                self._stall("end-of-stream-not-delivered", "%s->%s stream %d: FIN written, all %d bytes delivered, no end_stream by the end of the fair phase" % (side, recv, sid, w))
        for (side, uid), n in sim.pings.items():
            self.evaluations += 1
            if n == 0:
                self._stall("ping-not-acknowledged", "%s ping %d never acknowledged" % (side, uid))
            if n > 1:
                raise Violation("completion:ping-acknowledged-twice", "%s ping %d acknowledged %d times" % (side, uid, n), None)

    def _stall(self, what, text):
        """Bounded progress failed. Diagnose the mechanism from hooked state so that distinct
        defects get distinct signatures (a known finding must not mask another stall)."""
        mech = diagnose_stall(self.sim)
        if mech:
            raise Violation("stall:" + mech, text + " [diagnosis: %s]" % mech, self._diag())
        raise Violation("completion:" + what, text, self._diag())

    def _diag(self):
        sim = self.sim
        return {
            "now": sim.now,
            "stopped": sim.stopped_reason,
            "fates": dict(sim.fates.counts),
            "client_out": sim.client.out_count,
            "server_out": sim.server.out_count if sim.server else 0,
            "tail": [v.brief() for v in (sim.tap.packets[-12:] if sim.tap else [])],
        }


# ------------------------------------------------------------------ C02(b)


class TapMonitor(Monitor):
    """Every packet an endpoint emits must be opened by the independent RFC 9001/9369 reader and
    parse as well-formed frames to the last byte."""

    name = "tap"

    def __init__(self):
        super().__init__()
        self.packets_tapped = 0
        self.by_type = {}
        self.key_phases = set()
        self.suites = set()

    def on_datagram_out(self, ep, rec, t):
        for v in rec.views or []:
            if v.ptype == "padding":
                continue
            self.evaluations += 1
            self.packets_tapped += 1
            self.by_type[v.ptype] = self.by_type.get(v.ptype, 0) + 1
            if v.key_phase is not None:
                self.key_phases.add((ep.name, self.sim.tap.key_generation(ep.name)))
            if v.suite:
                self.suites.add(v.suite)
            if v.error is not None:
                kind = v.error.split("(")[0].strip().split(":")[0].replace(" ", "-")
                raise Violation(
                    "tap:%s:%s" % (v.ptype, kind),
                    "independent reader could not accept a %s packet emitted by %s: %s" % (v.ptype, ep.name, v.error),
                    {"datagram_index": rec.index, "len": len(rec.data), "head": rec.data[:48].hex(), "version": v.version, "key_generation": self.sim.tap.key_generation(ep.name)},
                )


# ------------------------------------------------------------------ C09(1) + C08(b) ledgers


class TimerMonitor(Monitor):
    """From connect()/first datagram until ConnectionTerminated was returned, get_timer() must be a
    finite float after every API cycle."""

    name = "timer"

    def on_step(self, ep, t, cause):
        if ep.terminated or not ep.started:
            return
        self.evaluations += 1
        v = ep.timer_at
        if v is None or not isinstance(v, (int, float)) or math.isnan(v) or math.isinf(v):
            raise Violation("timer:not-finite:%s" % ("None" if v is None else "nan-or-inf"), "%s.get_timer() returned %r after %s at t=%.4f while the connection is live" % (ep.name, v, cause, t), {"history_tail": self.sim.history[-12:]})


class RecoveryLedger(Monitor):
    """C08(b): bytes_in_flight equals the sum of tracked in-flight packets, never negative; cwnd floor."""

    name = "recovery-ledger"

    def on_step(self, ep, t, cause):
        loss = ep.conn._loss
        self.evaluations += 1
        tracked = 0
        for space in loss.spaces:
            n_ae = 0
            for p in space.sent_packets.values():
                if p.in_flight:
                    tracked += p.sent_bytes
                if p.is_ack_eliciting:
                    n_ae += 1
            if space.ack_eliciting_in_flight != n_ae:
                raise Violation("ledger:ack-eliciting-count-mismatch", "%s: ack_eliciting_in_flight=%d but %d tracked ack-eliciting packets (after %s)" % (ep.name, space.ack_eliciting_in_flight, n_ae, cause), None)
        bif = loss.bytes_in_flight
        if bif < 0:
            raise Violation("ledger:bytes-in-flight-negative", "%s: bytes_in_flight=%d after %s" % (ep.name, bif, cause), None)
        if bif != tracked:
            raise Violation("ledger:bytes-in-flight-mismatch", "%s: bytes_in_flight=%d, tracked in-flight packets sum to %d (after %s)" % (ep.name, bif, tracked, cause), None)
        if loss.congestion_window < 2 * ep.conn._max_datagram_size:
            raise Violation("ledger:cwnd-below-minimum", "%s: cwnd=%d < 2*%d" % (ep.name, loss.congestion_window, ep.conn._max_datagram_size), None)


def diagnose_stall(sim):
    """Mechanism of a failed bounded-progress obligation, read from hooked state (or None).

    key-phase-desync:<side>-ahead-by-<n>: the 1-RTT send secret of one endpoint is n key
    updates ahead of the receive secret of its peer, i.e. the peer cannot open its packets
    (and, since aioquic drops the previous receive keys at once, it cannot open the peer's).
    """
    from . import refcrypto as rc

    try:
        from aioquic import tls

        c, s = sim.client.conn, sim.server.conn
        pairs = (("client", c._cryptos[tls.Epoch.ONE_RTT].send, s._cryptos[tls.Epoch.ONE_RTT].recv),
                 ("server", s._cryptos[tls.Epoch.ONE_RTT].send, c._cryptos[tls.Epoch.ONE_RTT].recv))
    except Exception:
        return None
    for side, snd, rcv in pairs:
        if not snd.secret or not rcv.secret or snd.secret == rcv.secret:
            continue
        hash_name = "sha384" if len(rcv.secret) == 48 else "sha256"
        for who, a, b in ((side, rcv.secret, snd.secret), ("peer-of-" + side, snd.secret, rcv.secret)):
            cur = a
            for n in range(1, 5):
                cur = rc.hkdf_expand_label(hash_name, cur, rc.label(int(snd.version), "ku"), b"", len(cur))
                if cur == b:
                    return "key-phase-desync:%s-ahead-by-%d" % ("updater" if who == side else "receiver", n)
        return "key-phase-desync:unrelated-secrets"
    # a sender whose current path never got validated stays limited to 3x what it receives
    for ep in (sim.server, sim.client):
        try:
            path = ep.conn._network_paths[0]
            if not path.is_validated and ep.handshake_complete:
                return "path-never-validated:%s:challenge-%s" % (ep.name, "sent" if path.local_challenge_sent else "not-sent")
        except Exception:
            pass
    return None
