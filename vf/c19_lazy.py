"""C19 / lazy connect: "every connect ... waiter finishes exactly once, with success or a connection error".

`aioquic.asyncio.connect(..., wait_connected=False)` hands the protocol out before anything has been transmitted (so that
the application can start with 0-RTT data).  An application may just as well wait for the handshake first:
`await protocol.wait_connected()` — a connect waiter like any other.  The real connect() / serve() run on the
virtual-time loop of `vf.c19_vloop`; the waiter has to finish within a bound of virtual time (handshake completes over
a fair network, or the idle timeout of a few seconds ends the attempt with a ConnectionError).
"""

from __future__ import annotations

import asyncio
import os

from .common import SeededUrandom

CERTS = os.path.join(os.path.dirname(os.path.abspath(__file__)), "certs")
PORT = 4433


def _one(variant, seed, res, case):
    from aioquic.asyncio import connect, serve
    from aioquic.quic.configuration import QuicConfiguration

    from .c19_vloop import VLoop, VNet

    urandom = SeededUrandom(seed)
    urandom.install()
    loop = VLoop(seed=seed, max_lateness=0.0, wall_limit=60.0)
    params = {"base": 0.01, "loss": 0.0, "dup": 0.0, "reorder": 0.0, "jitter": 0.0, "adv_until": 0.0, "blackouts": {}}
    if variant == "server-unreachable":
        params["blackouts"] = {"server": [[0.0, 1e18]]}
    net = VNet(loop, seed, params)
    asyncio.set_event_loop(loop)
    out = {}

    async def main():
        scfg = QuicConfiguration(is_client=False, alpn_protocols=["vf"])
        scfg.load_cert_chain(os.path.join(CERTS, "ssl_cert.pem"), os.path.join(CERTS, "ssl_key.pem"))
        server = await serve("localhost", PORT, configuration=scfg)
        net.set_name(net.by_addr[(net.resolve("localhost"), PORT)], "server")
        ccfg = QuicConfiguration(is_client=True, alpn_protocols=["vf"], idle_timeout=3.0)
        ccfg.load_verify_locations(cafile=os.path.join(CERTS, "pycacert.pem"))
        try:
            async with connect("localhost", PORT, configuration=ccfg, wait_connected=False) as proto:
                if variant == "sleep-first":
                    await asyncio.sleep(0.5)
                t0 = loop.time()
                try:
                    await asyncio.wait_for(proto.wait_connected(), 30.0)
                    out["waiter"] = "connected"
                except ConnectionError:
                    out["waiter"] = "connection-error"
                except asyncio.TimeoutError:
                    out["waiter"] = "never-finished"
                out["virtual_seconds"] = round(loop.time() - t0, 3)
        except ConnectionError:
            out.setdefault("waiter", "connection-error")
        server.close()

    try:
        loop.run_until_complete(asyncio.wait_for(main(), 200.0))
    finally:
        try:
            for t in asyncio.all_tasks(loop):
                t.cancel()
            loop.run_until_complete(asyncio.sleep(0))
        except Exception:
            pass
        asyncio.set_event_loop(None)
        loop.close()
        urandom.uninstall()
    res.evaluations += 1
    res.count("lazy_connect_runs")
    w = out.get("waiter")
    if w == "never-finished":
        res.violation("waiter:connect-never-finishes:wait_connected-after-lazy-connect:" + variant,
                      "connect(wait_connected=False) followed by await protocol.wait_connected(): the waiter was still pending after 30 virtual seconds (%s)" % variant,
                      case, out)
    elif w is None:
        res.inconclusive.append("lazy connect %s: no outcome recorded" % variant)
    else:
        res.count("lazy_connect_%s_%s" % (variant, w))
        res.nontrivial.add("lazy:%s:%s" % (variant, w))
        if variant != "server-unreachable" and w != "connected":
            res.violation("waiter:connect-fails-on-a-fair-network:" + variant, "lazy connect on a loss-free network ended with %s" % w, case, out)


def lazy_connect(batch, res):
    for variant in ("at-once", "sleep-first", "server-unreachable"):
        case = {"gen": "lazy", "seed": batch.get("seed", 0), "only": variant}
        if batch.get("only") and batch["only"] != variant:
            continue
        try:
            _one(variant, batch.get("seed", 0), res, case)
        except Exception as exc:
            res.inconclusive.append("lazy connect %s: harness failed: %r" % (variant, exc))
